from vq.meta import _m

_m(
    "C17",
    "exploration",
    "Hypothesis draws a recipe: grid (H, W) in [3..28]^2, one case in ten with a side of 1 or 2, x wrap_around x mask (None | union/"
    "difference of up to 3+3 rectangles/discs, periodic shapes on periodic grids | thresholded smoothed seeded noise | "
    "explicit bit rows; optionally inverted, optionally largest component only; never empty) x field = sum of 1-3 terms "
    "(ramp, quadratic, Gaussian bump, single harmonic, seeded band-limited Fourier sum, seeded pixel-wise noise that "
    "randomises the merge order; each normalised to unit largest step and weighted by +-[0.2,1]; periodic terms preferred "
    "when wrap_around) rescaled so that the largest |difference| over exactly the 4-neighbour pairs with both ends in the mask "
    "(periodic pairs iff wrap_around) is frac*pi, frac in [0.05, 0.95], plus an offset in [-pi, pi] x route (direct "
    "unwrap_phase_2d_torch with float32/float64 input, wrapped or already-unwrapped, outside-mask values = field/zeros/"
    "noise | unwrap_bf_overlap_phase_torch on complex64 data embedded through bf_mask/mask_bf, one or two passes, "
    "wrap_around default or explicit) x MEMORY LAYOUT of every array handed over (same values and shape: C-contiguous | "
    "Fortran-strided via x.t().contiguous().t() | torch.from_numpy(np.asfortranarray(x)) | strided slice big[::2, ::2] | "
    "inner slice big[:, 1:-1] | 3-D permute-and-select view | for an all-True mask a stride-0 expand view; backing storage "
    "outside the view is NaN/True filler; 1-D bf vectors: contiguous | big[::2] | big[1:-1]; drawn independently for the "
    "phase, the mask, bf_mask, complex_data_bf and mask_bf; classes layout:<arg>=<layout>); x MASK ENCODING on the direct and Poisson routes (both unwrappers cast the mask with .to(torch.bool), so a pixel "
    "is valid iff its value is non-zero: bool | uint8 | int8/16/32/64 | float16/32/64 with the valid pixels carrying 1, the "
    "dtype's max / min, a power of two, a drawn value, a fraction, a tiny float, or per-pixel gray values; classes "
    "mask_enc:<dtype>/<kind>); seven strata (no mask / masked wrapped / masked already-unwrapped / bf route / seam / seamwrap "
    "/ Poisson) each get their own run; the seamwrap stratum draws corner-centred (FFT-layout) regions on periodic 6..24 "
    "grids - a disc or square around index (0,0) or the overlap lune of two such discs, the geometry DirectPtychography "
    "passes, connected only through the seam - with a corner-centred tilt (axis-aligned four times in five) plus an optional "
    "small corner-centred quadratic/Gaussian/band-limited/noise term, total in-mask range optionally limited (gentle "
    "fields), and the piston chosen so that the wrap level (2n+1)pi lies between two chosen neighbouring pixels (the seam "
    "pair at DC three times in five, another seam pair, or an interior pair), through the bf route (two in three; bf_mask = "
    "the full disc, the region, everything or a dilation) and the direct route; class wraps_only_across_seam = the wrap "
    "count differs across at least one seam pair and across no interior pair; the seam stratum draws periodic grids (wrap_around=True) that are thin (1xW, 2xW, Hx1, Hx2; four in six), narrow "
    "(3xW, Hx3) or regular (8..18 square-ish), long side >= 8, with band masks - a band of columns and/or rows that does not "
    "touch the border is removed (plus up to 2 single-pixel holes), so the remaining strips are connected only through the "
    "periodic seam - and a dominant harmonic of order 1-2 along the cut axis (frac >= 0.8) so the field really wraps, through "
    "the direct and the bf route; the Poisson method is run for no-raise/finite/shape only.  A case is "
    "NON-TRIVIAL when the wrap count k = round((truth - wrap(truth))/2pi) is not constant on at least one connected "
    "component of the mask (a wrap line has to be undone) and, if a mask is given, the mask has a hole, >= 2 connected "
    "components or a region connected only through the periodic border (class seam_connected_mask; thin_grid = a side <= 2)"
    " (mask=None cases with a wrap count as non-trivial; Poisson smoke cases never do); distinct = SHA-1 of the "
    "canonical JSON of the whole recipe.",
    [
        "Itoh's condition is imposed over the neighbour pairs the property names (4-neighbours inside the mask, periodic "
        "pairs iff wrap_around) with margin: max step <= 0.95*pi, so float32 rounding cannot move a step across pi",
        "connected components come from the harness (scipy.sparse.csgraph on its own pixel-pair list, cross-checked "
        "against scipy.ndimage.label on bounded grids), never from quantem",
        "tolerance 1e-4*(1+max|k|) rad for 'constant' and twice that for 'integer multiple of 2pi' (two pixels' errors): "
        "quantem adds float32(2*pi*k); measured clean-tree error <= 1.9e-6*(1+max|k|); a wrong unwrap is off by 2*pi",
        "values outside the mask are finite (wrapped field, zeros as the real caller passes, or noise); for already-"
        "unwrapped input they stay within the in-mask value range so the global-mean subtraction cannot cancel in float32",
        "the result is a function of the values only: every layout is checked by the harness to hold exactly the same "
        "values (torch.equal) before the call, and the oracle is the same for all layouts",
        "mask semantics for non-bool masks ('non-zero = valid') are read from the explicit .to(torch.bool) in both "
        "unwrappers, not from the property statement, which only speaks of mask shapes; the bf wrapper is only given bool "
        "masks (it rejects other dtypes)",
        "no claim is checked on pixels outside the mask; the Poisson solver is outside the exactness claim",
    ],
    workers=(1, 16),
    technique="property-based testing (Hypothesis): smooth fields built to satisfy Itoh's condition by construction, wrapped, "
    "unwrapped by quantem and compared with the generating field per connected component (independent component oracle)",
    text="Generated-input search: the generating field is the oracle (inverse construction: wrap then unwrap), components from "
    "an independent labelling; also the 2*pi-congruence with the input and the fixed-point law for already-unwrapped "
    "input.  Exploration only: no absence claim.",
    note="Union-find is a Python loop (~0.2 s per 500 px), so grids stop at 28x28; merge orders are explored only through "
    "the fields/masks generated, not enumerated.",
    design="DESIGN.md §3 C17",
)

"""A second module defining AutoSerialize classes with the SAME NAMES as vq.models.ser_models
(quantem itself has such clashes, e.g. ObjectBase in diffractive_imaging and in tomography):
`load` must resolve classes by module AND name."""

from quantem.core.io.serialize import AutoSerialize


class NodeA(AutoSerialize):
    other_module = True

    def __init__(self):
        pass


class NodeB(AutoSerialize):
    other_module = True

    def __init__(self):
        pass


CLASSES = {"NodeA": NodeA, "NodeB": NodeB}

"""Importable AutoSerialize subclasses used as graph nodes by the serializer checks (C01/C08/C14).
`load` re-imports classes by module path, so they must live in an importable module."""

from quantem.core.io.serialize import AutoSerialize


class NodeA(AutoSerialize):
    """plain node; attributes are attached by the graph builder"""

    def __init__(self):
        pass

    def method(self):  # a class-level attribute that is not instance data
        return 1

    @property
    def prop(self):
        return 2


class NodeB(AutoSerialize):
    def __init__(self):
        pass


class NodeC(AutoSerialize):
    class_level = 3

    def __init__(self):
        pass


class Unpicklable:
    """A leaf no serializer branch accepts and that dill cannot pickle either."""

    def __reduce__(self):
        raise TypeError("vq: deliberately unserialisable leaf")

    def __reduce_ex__(self, protocol):
        raise TypeError("vq: deliberately unserialisable leaf")


CLASSES = {"NodeA": NodeA, "NodeB": NodeB, "NodeC": NodeC}

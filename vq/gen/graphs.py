"""Object-graph specs for the serializer properties (C01, C08, C14).

A *spec* is a JSON-able description of an object graph; `build(spec)` makes the live objects,
`diff(a, b)` is the structural-equality oracle of C01 (returns None or a description of the first
difference).  Everything random inside `build` is a pure function of seeds stored in the spec."""

from __future__ import annotations

import math

import numpy as np
from hypothesis import strategies as st

RESERVED_NAMES = {
    "_autoserialize",
    "_autoserialize_skip_names",
    "_autoserialize_skip_types",
    "_container_type",
    "_sequence_encoding",
    "_torch_iterable_module_type",
    "_original_shape",
    "zarr.json",
    "",
    ".",
    "..",
}
RESERVED_SUFFIXES = (".is_path", ".torch_save")

ATTR_NAMES = [
    "a", "b", "c", "data", "values", "x1", "_private", "name", "Zeta", "zeta", "tensor", "module", "info",
    "count", "__dunder", "ünï", "with.dot", "0lead", "has space", "items", "child", "k_9", "shape", "dtype",
    "optimizer", "scheduler", "attrs", "0", "1",
]  # fmt: skip

KEY_ALPHABET = "abAB01 ._-*?:\tüλ#%+=()[]{}'\"!@$^&~`,;<>|"

NP_SCALAR_DTYPES = ["bool", "int8", "int16", "int32", "int64", "uint8", "uint16", "uint32", "uint64",
                    "float16", "float32", "float64"]  # fmt: skip
NP_ARRAY_DTYPES = NP_SCALAR_DTYPES + ["complex64", "complex128", ">i4", ">f8", "<U5", "S3", "M8[s]", "m8[ms]"]
TORCH_DTYPES = ["float16", "float32", "float64", "bfloat16", "int8", "int16", "int32", "int64", "uint8", "bool",
                "complex64", "complex128"]  # fmt: skip


def legal_name(s):
    return (
        s not in RESERVED_NAMES
        and not s.endswith(RESERVED_SUFFIXES)
        and not s.startswith("_autoserialize")
        and "/" not in s
        and "\\" not in s
        and "\x00" not in s
        and len(s.encode("utf-8")) <= 120
    )


def dict_keys():
    base = st.text(alphabet=KEY_ALPHABET, min_size=1, max_size=8)
    named = st.sampled_from(["key", "A", "a", "0", "1", "10", "values", "x.y", "a b", " ", "tensor", "module", "k"])
    return st.one_of(named, base).filter(legal_name)


# ------------------------------------------------------------------------------------------------
# leaf specs
# ------------------------------------------------------------------------------------------------
def _floats(allow_nan=True):
    return st.one_of(
        st.floats(allow_nan=False, allow_infinity=False, width=64),
        st.sampled_from([0.0, -0.0, 1.5, float("inf"), float("-inf")] + ([float("nan")] if allow_nan else [])),
    )


def py_scalars():
    return st.one_of(
        st.builds(lambda v: {"t": "bool", "v": v}, st.booleans()),
        st.builds(lambda v: {"t": "int", "v": v}, st.one_of(st.integers(-5, 5), st.integers(-(2**63), 2**63 - 1), st.integers(-(10**30), 10**30))),
        st.builds(lambda v: {"t": "float", "v": v}, _floats()),
        st.just({"t": "none"}),
        st.builds(lambda v: {"t": "str", "v": v}, st.text(st.characters(exclude_categories=["Cs"]), max_size=12)),
    )


def paths():
    seg = st.text(alphabet="abc._- 0", min_size=1, max_size=5).filter(lambda s: s not in (".", ".."))
    return st.builds(
        lambda parts, absolute, cls: {"t": "path", "v": ("/" if absolute else "") + "/".join(parts), "cls": cls},
        st.lists(seg, min_size=1, max_size=3),
        st.booleans(),
        st.sampled_from(["Path", "PurePosixPath"]),
    )


def _np_scalar_value(dtype, in_numeric_seq=False):
    if dtype == "bool":
        return st.booleans()
    if dtype.startswith(("int", "uint")):
        info = np.iinfo(dtype)
        hi = min(info.max, 2**63 - 1) if in_numeric_seq else info.max
        return st.one_of(st.integers(max(info.min, -3), min(hi, 3)), st.integers(info.min, hi))
    width = {"float16": 16, "float32": 32, "float64": 64}[dtype]
    return st.one_of(st.floats(width=width, allow_nan=False), st.just(float("nan")))


@st.composite
def np_scalars(draw, in_numeric_seq=False, complex_ok=True):
    dts = NP_SCALAR_DTYPES + (["complex64", "complex128"] if complex_ok and not in_numeric_seq else [])
    dt = draw(st.sampled_from(dts))
    if dt.startswith("complex"):
        w = 32 if dt == "complex64" else 64
        re = draw(st.floats(width=w, allow_nan=False, allow_infinity=False))
        im = draw(st.floats(width=w, allow_nan=False, allow_infinity=False))
        return {"t": "npscalar", "dtype": dt, "v": [re, im]}
    return {"t": "npscalar", "dtype": dt, "v": draw(_np_scalar_value(dt, in_numeric_seq))}


@st.composite
def nd_arrays(draw):
    dt = draw(st.sampled_from(NP_ARRAY_DTYPES))
    kind = draw(st.sampled_from(["0d", "empty", "1d", "nd", "nd", "nd"]))
    if kind == "0d":
        shape = []
    elif kind == "empty":
        shape = draw(st.lists(st.integers(0, 3), min_size=1, max_size=3))
        if all(s > 0 for s in shape):
            shape[draw(st.integers(0, len(shape) - 1))] = 0
    elif kind == "1d":
        shape = [draw(st.integers(1, 7))]
    else:
        shape = draw(st.lists(st.integers(1, 4), min_size=2, max_size=4))
    layout = draw(st.sampled_from(["C", "C", "F", "strided", "neg"]))
    if draw(st.integers(0, 11)) == 0:
        c = draw(st.sampled_from(["pickle-bytes", "gzip-dill-bytes", "gzip-bytes", "zip-magic", "json-bytes"]))
        return {"t": "nd", "dtype": "uint8", "shape": [1], "seed": draw(st.integers(0, 10**6)), "layout": "C", "content": c}
    return {"t": "nd", "dtype": dt, "shape": shape, "seed": draw(st.integers(0, 10**6)), "layout": layout}


@st.composite
def tensors(draw):
    dt = draw(st.sampled_from(TORCH_DTYPES))
    kind = draw(st.sampled_from(["0d", "empty", "nd", "nd"]))
    if kind == "0d":
        shape = []
    elif kind == "empty":
        shape = [0] + draw(st.lists(st.integers(0, 3), max_size=2))
    else:
        shape = draw(st.lists(st.integers(1, 4), min_size=1, max_size=3))
    floaty = dt in ("float16", "float32", "float64", "bfloat16", "complex64", "complex128")
    grad = draw(st.booleans()) if floaty else False
    param = draw(st.booleans()) if floaty else False
    spec = {"t": "tensor", "dtype": dt, "shape": shape, "seed": draw(st.integers(0, 10**6)), "grad": grad, "param": param}
    if draw(st.integers(0, 2)) == 0:
        # a view into a larger storage; the *_live forms are still autograd views of their base (t._base is not None)
        # when they are saved (seeded change C01-13: views pickled as detach().clone() lose requires_grad)
        spec["view"] = draw(st.sampled_from(["rows", "index", "transpose", "rows_live", "index_live"]))
    return spec


def modules():
    return st.builds(
        lambda kind, seed: {"t": "module", "kind": kind, "seed": seed},
        st.sampled_from(["linear", "sequential", "modulelist"]),
        st.integers(0, 10**6),
    )


def misc_leaves():
    return st.one_of(
        st.builds(lambda b, s: {"t": "rng", "bitgen": b, "seed": s}, st.sampled_from(["PCG64", "MT19937", "Philox", "SFC64"]), st.integers(0, 99)),
        st.builds(lambda n, lvl: {"t": "logger", "name": "vq." + n, "level": lvl}, st.sampled_from(["a", "b", "c.d"]), st.sampled_from([10, 20, 30])),
    )


def leaves(complex_ok=True):
    opts = [py_scalars(), py_scalars(), paths(), np_scalars(complex_ok=complex_ok), nd_arrays(), nd_arrays(), tensors(), modules(), misc_leaves()]
    if complex_ok:
        opts.append(st.builds(lambda a, b: {"t": "complex", "v": [a, b]}, st.floats(-9, 9), st.floats(-9, 9)))
    return st.one_of(*opts)


# ------------------------------------------------------------------------------------------------
# containers and objects
# ------------------------------------------------------------------------------------------------
def numeric_seq(homogeneous):
    if homogeneous:
        el = st.one_of(
            st.lists(st.integers(-(2**63), 2**63 - 1).map(lambda v: {"t": "int", "v": v}), min_size=1, max_size=5),
            st.lists(_floats().map(lambda v: {"t": "float", "v": v}), min_size=1, max_size=5),
            st.lists(st.booleans().map(lambda v: {"t": "bool", "v": v}), min_size=1, max_size=5),
        )
    else:
        small = st.one_of(
            st.integers(-(2**53), 2**53).map(lambda v: {"t": "int", "v": v}),
            _floats().map(lambda v: {"t": "float", "v": v}),
            st.booleans().map(lambda v: {"t": "bool", "v": v}),
            np_scalars(in_numeric_seq=True).filter(lambda s: not (s["dtype"].endswith("int64") and abs(s["v"]) > 2**53)),
        )
        el = st.lists(small, min_size=1, max_size=5)
    return st.builds(lambda kind, items: {"t": kind, "items": items, "flavour": "numeric"}, st.sampled_from(["list", "tuple"]), el)


def set_elements():
    atom = st.one_of(
        st.integers(-(2**53), 2**53).map(lambda v: {"t": "int", "v": v}),
        st.floats(allow_nan=False, allow_infinity=False).map(lambda v: {"t": "float", "v": v}),
        st.text(alphabet="abc xyz", max_size=4).map(lambda v: {"t": "str", "v": v}),
        st.just({"t": "none"}),
        # hashable value kinds that are not JSON attributes: stored element by element as arrays (dill fallback) / path
        # strings and read back through the array branch of the set decoder (first-order mutant C01:382)
        st.builds(lambda a, b: {"t": "complex", "v": [a, b]}, st.floats(-9, 9), st.floats(-9, 9)),
        paths(),
    )
    tup = st.lists(st.one_of(st.integers(-9, 9).map(lambda v: {"t": "int", "v": v}), st.text(alphabet="ab", max_size=2).map(lambda v: {"t": "str", "v": v})), min_size=0, max_size=3).map(
        lambda items: {"t": "tuple", "items": items}
    )
    return st.one_of(atom, atom, tup)


def sets():
    return st.lists(set_elements(), max_size=5).map(lambda items: {"t": "set", "items": items})


@st.composite
def values(draw, depth, complex_ok=True, objs=True, rng_in_containers=True, in_container=False):
    """Any value spec of nesting depth <= depth.  Categories are drawn explicitly (not through
    one_of over recursive strategies) so that graphs do not collapse to single scalars."""
    if depth <= 0:
        cat = "leaf"
    else:
        cat = draw(st.sampled_from(["leaf", "leaf", "leaf", "seq", "seq", "dict", "dict", "numseq", "set", "obj" if objs else "seq"]))
    if cat == "leaf":
        v = draw(leaves(complex_ok))
        if in_container and not rng_in_containers and v["t"] == "rng":
            v = {"t": "none"}
        return v
    if cat == "numseq":
        return draw(numeric_seq(draw(st.booleans())))
    if cat == "set":
        return draw(sets())
    if cat == "obj":
        return draw(objects(depth - 1, complex_ok, rng_in_containers=rng_in_containers))
    n = draw(st.integers(0, 4))
    sub = values(depth - 1, complex_ok, objs, rng_in_containers, in_container=True)
    if cat == "seq":
        return {"t": draw(st.sampled_from(["list", "tuple"])), "items": fix_numeric_seq([draw(sub) for _ in range(n)])}
    keys = draw(st.lists(dict_keys(), min_size=n, max_size=n, unique=True))
    return {"t": "dict", "items": [[k, draw(sub)] for k in keys]}


def fix_numeric_seq(items):
    """A sequence whose elements all happen to be numbers takes the serializer's ndarray fast path; the
    property only covers integers within int64 there (and by-value comparison needs ints <= 2^53 as soon
    as anything but plain Python ints is present).  Clamp by construction instead of rejecting."""

    def is_num(s):
        return s["t"] in ("bool", "int", "float") or (s["t"] == "npscalar" and not s["dtype"].startswith("complex"))

    if not items or not all(is_num(s) for s in items):
        return items
    only_py_ints = all(s["t"] in ("int",) for s in items)
    bound = 2**63 - 1 if only_py_ints else 2**53
    out = []
    for s in items:
        if s["t"] == "int" or (s["t"] == "npscalar" and s["dtype"].startswith(("int", "uint"))):
            v = s["v"]
            if not -bound <= v <= bound:
                s = dict(s, v=max(-bound, min(bound, v)) if s["t"] == "int" or not s["dtype"].startswith("uint") else min(bound, v))
        out.append(s)
    return out


def attr_names():
    return st.sampled_from(ATTR_NAMES).filter(legal_name)


@st.composite
def objects(draw, depth, complex_ok=True, min_attrs=0, max_attrs=5, rng_in_containers=True):
    cls = draw(st.sampled_from(["NodeA", "NodeB", "NodeC"]))
    names = draw(st.lists(attr_names(), min_size=min_attrs, max_size=max_attrs, unique=True))
    spec = {"t": "obj", "cls": cls, "attrs": [[n, draw(values(depth, complex_ok, True, rng_in_containers))] for n in names]}
    if cls in ("NodeA", "NodeB") and draw(st.integers(0, 3)) == 0:
        spec["mod"] = 2  # same class name, other module
    return spec


# ------------------------------------------------------------------------------------------------
# build
# ------------------------------------------------------------------------------------------------
def _make_nd(spec):
    if spec.get("content"):
        # arrays whose BYTES look like something the serializer uses internally
        import gzip
        import pickle

        import dill

        payload = {"k": spec["seed"] % 7, "l": [1, 2, 3]}
        raw = {
            "pickle-bytes": pickle.dumps(payload),
            "gzip-dill-bytes": gzip.compress(dill.dumps(payload), mtime=0),
            "gzip-bytes": gzip.compress(b"not a pickle %d" % spec["seed"], mtime=0),
            "zip-magic": b"PK\x03\x04" + bytes(range(20)),
            "json-bytes": b'{"_autoserialize": {"version": 1}}',
        }[spec["content"]]
        return np.frombuffer(raw, dtype=np.uint8).copy()
    dt = np.dtype(spec["dtype"])
    shape = tuple(spec["shape"])
    rng = np.random.default_rng(spec["seed"])
    n = int(np.prod(shape)) if shape else 1
    if dt.kind == "b":
        flat = rng.random(n) > 0.5
    elif dt.kind in "iu":
        info = np.iinfo(dt)
        flat = rng.integers(info.min, info.max, size=n, endpoint=True, dtype=np.dtype(dt.str[1:]) if dt.byteorder == ">" else dt)
    elif dt.kind == "f":
        flat = (rng.standard_normal(n) * 10.0 ** rng.integers(-3, 4, size=n)).astype(dt)
        if n > 2:
            flat[0] = np.nan
            flat[1] = -0.0
    elif dt.kind == "c":
        flat = (rng.standard_normal(n) + 1j * rng.standard_normal(n)).astype(dt)
    elif dt.kind == "U":
        flat = np.array(["".join(rng.choice(list("abcüλ "), size=int(rng.integers(0, 6)))) for _ in range(n)], dtype=dt)
    elif dt.kind == "S":
        flat = np.array([bytes(rng.integers(97, 123, size=int(rng.integers(0, 4))).astype(np.uint8)) for _ in range(n)], dtype=dt)
    elif dt.kind in "Mm":
        flat = rng.integers(-(10**9), 10**9, size=n).astype(dt)
    else:
        raise ValueError(dt)
    flat = np.asarray(flat).astype(dt)
    arr = flat.reshape(shape)
    lay = spec.get("layout", "C")
    if arr.ndim >= 1 and arr.size:
        if lay == "F":
            arr = np.asfortranarray(arr)
        elif lay == "strided":
            big = np.zeros(tuple(2 * s for s in arr.shape), dtype=dt)
            view = big[tuple(slice(None, None, 2) for _ in arr.shape)]
            view[...] = arr
            arr = view
        elif lay == "neg":
            arr = np.ascontiguousarray(arr[::-1])[::-1]
    return arr


def _torch_dtype(name):
    import torch

    return getattr(torch, name)


def _make_tensor(spec):
    import torch

    g = torch.Generator().manual_seed(spec["seed"])
    dt = _torch_dtype(spec["dtype"])
    shape = tuple(spec["shape"])
    if dt == torch.bool:
        t = torch.rand(shape, generator=g) > 0.5
    elif dt in (torch.int8, torch.int16, torch.int32, torch.int64, torch.uint8):
        t = torch.randint(0, 100, shape, generator=g).to(dt)
    elif dt in (torch.complex64, torch.complex128):
        t = torch.complex(torch.randn(shape, generator=g, dtype=torch.float64), torch.randn(shape, generator=g, dtype=torch.float64)).to(dt)
    else:
        t = torch.randn(shape, generator=g, dtype=torch.float64).to(dt)
    view = spec.get("view")
    if view:
        # same values, but living inside a larger storage (slice of a bigger tensor / transposed)
        if view == "transpose" and t.ndim >= 2:
            t = t.transpose(0, 1).contiguous().transpose(0, 1)
        elif view.startswith("index") or t.ndim == 0:
            big = torch.zeros((3,) + tuple(t.shape), dtype=t.dtype)
            big[1] = t
            t = big[1]
        else:
            big = torch.zeros((t.shape[0] + 3,) + tuple(t.shape[1:]), dtype=t.dtype)
            big[2 : 2 + t.shape[0]] = t
            t = big[2 : 2 + t.shape[0]]
        if not view.endswith("_live"):
            t = t.detach()
    if spec.get("param"):
        t = torch.nn.Parameter(t, requires_grad=bool(spec.get("grad")))
    elif spec.get("grad"):
        t.requires_grad_(True)
    return t


def _make_module(spec):
    import torch

    torch.manual_seed(spec["seed"])
    if spec["kind"] == "linear":
        return torch.nn.Linear(3, 2)
    if spec["kind"] == "sequential":
        return torch.nn.Sequential(torch.nn.Linear(2, 3), torch.nn.ReLU(), torch.nn.Linear(3, 1))
    return torch.nn.ModuleList([torch.nn.Linear(2, 2), torch.nn.Conv1d(1, 2, 3)])


_ALIASES = None


def build(spec):
    """Top-level entry: objects carrying the same "alias" key are built once and shared (one instance
    reachable along several paths of an acyclic graph)."""
    global _ALIASES
    top = _ALIASES is None
    if top:
        _ALIASES = {}
    try:
        return _build(spec)
    finally:
        if top:
            _ALIASES = None


def _build(spec):
    t = spec["t"]
    if t in ("bool", "int", "float", "str"):
        return spec["v"]
    if t == "none":
        return None
    if t == "complex":
        return complex(spec["v"][0], spec["v"][1])
    if t == "path":
        import pathlib

        return getattr(pathlib, spec["cls"])(spec["v"])
    if t == "npscalar":
        dt = np.dtype(spec["dtype"])
        if dt.kind == "c":
            return dt.type(complex(spec["v"][0], spec["v"][1]))
        return dt.type(spec["v"])
    if t == "nd":
        return _make_nd(spec)
    if t == "tensor":
        return _make_tensor(spec)
    if t == "module":
        return _make_module(spec)
    if t == "rng":
        import numpy.random as npr

        return npr.Generator(getattr(npr, spec["bitgen"])(spec["seed"]))
    if t == "logger":
        import logging

        lg = logging.getLogger(spec["name"])
        lg.setLevel(spec["level"])
        return lg
    if t == "unpicklable":
        from vq.models.ser_models import Unpicklable

        return Unpicklable()
    if t == "list":
        return [_build(s) for s in spec["items"]]
    if t == "tuple":
        return tuple(_build(s) for s in spec["items"])
    if t == "set":
        return set(_build(s) for s in spec["items"])
    if t == "dict":
        return {k: _build(s) for k, s in spec["items"]}
    if t == "obj":
        from vq.models import ser_models, ser_models2

        if spec.get("alias") is not None and spec["alias"] in _ALIASES:
            return _ALIASES[spec["alias"]]
        o = (ser_models2 if spec.get("mod") == 2 else ser_models).CLASSES[spec["cls"]]()
        if spec.get("alias") is not None:
            _ALIASES[spec["alias"]] = o
        for name, s in spec["attrs"]:
            o.__dict__[name] = _build(s)
        return o
    raise ValueError("unknown spec %r" % (t,))


def kinds(spec, ctxname="root", out=None):
    """Histogram keys: value kind x nesting context."""
    if out is None:
        out = []
    t = spec["t"]
    label = t
    if t == "nd":
        label = "nd:" + ("0d" if not spec["shape"] else "empty" if 0 in spec["shape"] else "nd")
    if t == "tensor" and spec.get("grad"):
        label = "tensor:grad"
    if t in ("list", "tuple") and spec.get("flavour") == "numeric":
        label = t + ":numeric"
    if t == "obj" and spec.get("mod") == 2:
        label = "obj:same_name_other_module"
    if t == "obj" and spec.get("alias") is not None:
        label = "obj:shared_instance"
    if t == "nd" and spec.get("content"):
        label = "nd:payload_lookalike"
    if t == "tensor" and spec.get("view"):
        label = label + ":view"
    out.append("%s@%s" % (label, ctxname))
    if t in ("list", "tuple", "set"):
        for s in spec["items"]:
            kinds(s, "seq" if t != "set" else "set", out)
    elif t == "dict":
        for _k, s in spec["items"]:
            kinds(s, "dict", out)
    elif t == "obj":
        for _k, s in spec["attrs"]:
            kinds(s, "attr", out)
    return out


def count_leaves(spec):
    t = spec["t"]
    if t in ("list", "tuple", "set"):
        return 1 + sum(count_leaves(s) for s in spec["items"])
    if t == "dict":
        return 1 + sum(count_leaves(s) for _k, s in spec["items"])
    if t == "obj":
        return 1 + sum(count_leaves(s) for _k, s in spec["attrs"])
    return 1


# ------------------------------------------------------------------------------------------------
# structural equality (the C01 oracle)
# ------------------------------------------------------------------------------------------------
def _is_num(v):
    return isinstance(v, (bool, int, float, np.integer, np.floating, np.bool_)) and not isinstance(v, (np.ndarray,))


def _num_eq(a, b):
    """numeric value equality: exact for integers, NaN == NaN, -0.0 == 0.0"""
    a_int = isinstance(a, (bool, int, np.integer, np.bool_))
    b_int = isinstance(b, (bool, int, np.integer, np.bool_))
    if a_int and b_int:
        return int(a) == int(b)
    fa, fb = float(a), float(b)
    if math.isnan(fa) or math.isnan(fb):
        return math.isnan(fa) and math.isnan(fb)
    if a_int or b_int:
        # an integer that came back as a float (mixed numeric sequence): exact value required
        return fa == fb and (int(a) if a_int else int(b)) == (int(fb) if a_int else int(fa))
    return fa == fb


def _arr_eq(a, b):
    if a.dtype.kind in "Mm":
        return np.array_equal(a.view("i8"), b.view("i8"))
    if a.dtype.kind in "fc":
        return bool(np.array_equal(a, b, equal_nan=True))
    return bool(np.array_equal(a, b))


def diff(a, b, path="root"):
    """None if `b` (loaded) is structurally equal to `a` (expected), else a description."""
    import pathlib

    import torch

    from quantem.core.io.serialize import AutoSerialize

    if isinstance(a, AutoSerialize) and not isinstance(a, torch.nn.Module):
        if type(a) is not type(b):
            return "%s: class %s.%s -> %s.%s" % (path, type(a).__module__, type(a).__name__, type(b).__module__, type(b).__name__)
        ka, kb = set(vars(a)), set(vars(b))
        if ka != kb:
            return "%s: attribute names differ: missing %s, extra %s" % (path, sorted(ka - kb), sorted(kb - ka))
        for k in sorted(ka):
            d = diff(vars(a)[k], vars(b)[k], "%s.%s" % (path, k))
            if d:
                return d
        return None
    if isinstance(a, torch.Tensor):
        if not isinstance(b, torch.Tensor):
            return "%s: tensor -> %s" % (path, type(b).__name__)
        if a.dtype != b.dtype or tuple(a.shape) != tuple(b.shape):
            return "%s: tensor dtype/shape %s%s -> %s%s" % (path, a.dtype, tuple(a.shape), b.dtype, tuple(b.shape))
        if a.requires_grad != b.requires_grad:
            return "%s: requires_grad %s -> %s" % (path, a.requires_grad, b.requires_grad)
        if isinstance(a, torch.nn.Parameter) != isinstance(b, torch.nn.Parameter):
            return "%s: Parameter-ness changed" % path
        da, db = a.detach(), b.detach()
        if da.dtype in (torch.bfloat16, torch.float16):
            da, db = da.float(), db.float()
        if not torch.equal(torch.nan_to_num(da) if da.is_floating_point() else da, torch.nan_to_num(db) if db.is_floating_point() else db):
            return "%s: tensor values differ" % path
        return None
    if isinstance(a, torch.nn.Module):
        if type(a) is not type(b):
            return "%s: module class %s -> %s" % (path, type(a).__name__, type(b).__name__)
        sa, sb = a.state_dict(), b.state_dict()
        if list(sa.keys()) != list(sb.keys()):
            return "%s: state_dict keys differ" % path
        for k in sa:
            if not torch.equal(sa[k], sb[k]):
                return "%s: state_dict[%s] differs" % (path, k)
        return None
    if isinstance(a, np.ndarray):
        if not isinstance(b, np.ndarray):
            return "%s: ndarray%s -> %s (%r)" % (path, a.shape, type(b).__name__, b if not hasattr(b, "shape") else "")
        if a.dtype.newbyteorder("=") != b.dtype.newbyteorder("="):
            return "%s: array dtype %s -> %s" % (path, a.dtype, b.dtype)
        if a.shape != b.shape:
            return "%s: array shape %s -> %s" % (path, a.shape, b.shape)
        if not _arr_eq(a, b):
            return "%s: array contents differ (%s%s): %r -> %r" % (path, a.dtype, a.shape, a.ravel()[:4].tolist(), b.ravel()[:4].tolist())
        return None
    if isinstance(a, (np.complexfloating, complex)) and not isinstance(a, bool):
        try:
            ok = isinstance(b, (complex, np.complexfloating, np.ndarray)) and np.shape(b) == () and complex(a) == complex(b)
        except Exception:
            ok = False
        return None if ok else "%s: complex scalar %r -> %r (%s)" % (path, a, b if np.size(b) < 5 else "...", type(b).__name__)
    if _is_num(a):
        # NumPy scalars / Python numbers are compared by numeric value; bool must stay a truth value
        if isinstance(a, (bool, np.bool_)) and isinstance(b, (bool, np.bool_)):
            return None if bool(a) == bool(b) else "%s: %r -> %r" % (path, a, b)
        if not _is_num(b):
            return "%s: number %r -> %s %r" % (path, a, type(b).__name__, b if np.size(b) < 5 else "...")
        return None if _num_eq(a, b) else "%s: number %r -> %r" % (path, a, b)
    if a is None:
        return None if b is None else "%s: None -> %r" % (path, b)
    if isinstance(a, str):
        return None if (isinstance(b, str) and a == b) else "%s: str %r -> %s %r" % (path, a, type(b).__name__, b)
    if isinstance(a, pathlib.PurePath):
        if not isinstance(b, pathlib.PurePath):
            return "%s: path -> %s %r" % (path, type(b).__name__, b)
        return None if str(a) == str(b) else "%s: path %r -> %r" % (path, str(a), str(b))
    if isinstance(a, (list, tuple)):
        if type(a) is not type(b):
            return "%s: container kind %s -> %s" % (path, type(a).__name__, type(b).__name__)
        if len(a) != len(b):
            return "%s: length %d -> %d" % (path, len(a), len(b))
        for i, (x, y) in enumerate(zip(a, b)):
            d = diff(x, y, "%s[%d]" % (path, i))
            if d:
                return d
        return None
    if isinstance(a, (set, frozenset)):
        if not isinstance(b, set):
            return "%s: container kind set -> %s" % (path, type(b).__name__)
        return None if (len(a) == len(b) and a == b) else "%s: set %r -> %r" % (path, a, b)
    if isinstance(a, dict):
        if not isinstance(b, dict):
            return "%s: container kind dict -> %s" % (path, type(b).__name__)
        if set(a) != set(b):
            return "%s: dict keys differ: missing %s, extra %s" % (path, sorted(set(a) - set(b)), sorted(set(b) - set(a)))
        for k in a:
            d = diff(a[k], b[k], "%s[%r]" % (path, k))
            if d:
                return d
        return None
    if isinstance(a, np.random.Generator):
        return None if isinstance(b, np.random.Generator) else "%s: Generator -> %s" % (path, type(b).__name__)
    import logging

    if isinstance(a, logging.Logger):
        return None if isinstance(b, logging.Logger) else "%s: Logger -> %s" % (path, type(b).__name__)
    raise ValueError("diff: unsupported expected value %r at %s" % (type(a), path))

"""Case -> ground truth arrays -> (simulated dataset, preprocessed Ptychography object).

A *case* is a JSON-able dict (see `vq/props/c02.py:cases`); every array is a pure function of it.
quantem is only imported lazily inside `Q()`; the array builders are numpy float64 only.

Geometry keys used here (other properties can reuse the builder with the same keys):
  roi [R, C]            detector / probe window shape
  gpts [g0, g1]         raster grid
  sampling [s0, s1]     object pixel size in Angstrom  (reciprocal sampling = 1 / (roi * sampling))
  step_px [a0, a1]      scan step in object pixels (scan step in Angstrom = step_px * sampling)
  energy                eV
  S, thick              number of slices, list of S-1 thicknesses (Angstrom)
  M                     number of incoherent probe modes
  obj_type              complex | pure_phase | potential
  obj {strength, smooth}        phase range (rad) of the random object, optional smoothing
  probe {radius, soft, defocus, astig, astig_angle, dose, weights}
                        aperture radius / edge width in detector pixels, aberration phases (rad) at the
                        aperture edge, total intensity, relative mode weights
  pad [p0, p1]          requested obj_padding_px
  descan                "A" (no_shift, no dataset optimiser) | "B_constant" | "B_plane"
  stale {energy, thick_scale, via, re_preprocess}   optional live-edit history, see make_ptycho
  clip                  value of the dataset constraint clip_scan_positions (library default True)
  seed                  numpy seed for everything random"""

from __future__ import annotations

import numpy as np

from vq.refs import c02_ptycho_sim as sim


# ------------------------------------------------------------------------------------------------
# lazy quantem handles
# ------------------------------------------------------------------------------------------------
class _Q:
    pass


_q = None


def Q():
    global _q
    if _q is None:
        import torch
        from quantem.core import config
        from quantem.core.datastructures.dataset4dstem import Dataset4dstem
        from quantem.diffractive_imaging.dataset_models import PtychographyDatasetRaster
        from quantem.diffractive_imaging.detector_models import DetectorPixelated
        from quantem.diffractive_imaging.object_models import ObjectPixelated
        from quantem.diffractive_imaging.probe_models import ProbePixelated
        from quantem.diffractive_imaging.ptychography import Ptychography

        o = _Q()
        o.torch = torch
        o.config = config
        o.Dataset4dstem = Dataset4dstem
        o.PtychographyDatasetRaster = PtychographyDatasetRaster
        o.DetectorPixelated = DetectorPixelated
        o.ObjectPixelated = ObjectPixelated
        o.ProbePixelated = ProbePixelated
        o.Ptychography = Ptychography
        _q = o
    return _q


def to_np(t):
    if isinstance(t, np.ndarray):
        return t
    return t.detach().cpu().numpy()


# ------------------------------------------------------------------------------------------------
# geometry
# ------------------------------------------------------------------------------------------------
def geometry(case):
    roi = np.array(case["roi"], dtype=np.int64)
    samp = np.array(case["sampling"], dtype=np.float64)
    return {
        "roi": roi,
        "gpts": np.array(case["gpts"], dtype=np.int64),
        "sampling": samp,
        "step_A": np.array(case["step_px"], dtype=np.float64) * samp,
        "recip": 1.0 / (samp * roi),
    }


def raster_offsets_px(case):
    """(J, 2) offsets of the raster positions from the first one, in object pixels, row-major (the
    order in which a (g0, g1, R, C) dataset is flattened): physics, independent of any origin."""
    g0, g1 = case["gpts"]
    a0, a1 = (float(v) for v in case["step_px"])
    i, j = np.meshgrid(np.arange(g0), np.arange(g1), indexing="ij")
    return np.stack([i.ravel() * a0, j.ravel() * a1], axis=-1).astype(np.float64)


# ------------------------------------------------------------------------------------------------
# ground truth arrays
# ------------------------------------------------------------------------------------------------
def _smooth(a, rng):
    """Periodic 3x3 binomial smoothing (keeps the array periodic, unlike scipy's default modes)."""
    k = np.array([0.25, 0.5, 0.25])
    out = np.zeros_like(a)
    for d0, w0 in zip((-1, 0, 1), k):
        for d1, w1 in zip((-1, 0, 1), k):
            out += w0 * w1 * np.roll(a, (d0, d1), axis=(-2, -1))
    return out


def object_phase(case, shape, salt=0):
    """Real (S, Ro, Co) field in [-1, 1] (roughly): the random structure of the object."""
    rng = np.random.default_rng([int(case["seed"]), 101 + salt])
    a = rng.uniform(-1.0, 1.0, shape)
    if case["obj"].get("smooth"):
        a = _smooth(a, rng)
        a /= max(1e-12, float(np.abs(a).max()))
    return a


def truth_object(case, shape):
    """Unit-amplitude object of the given (S, Ro, Co) shape: complex128 transmission for complex /
    pure_phase objects, float64 potential V >= 0 for potential objects."""
    u = object_phase(case, shape)
    strength = float(case["obj"]["strength"])
    if case["obj_type"] == "potential":
        return strength * 0.5 * (u + 1.0) + 0.01  # strictly positive: inside the positivity constraint
    return np.exp(1j * strength * u)


def perturbed_object(case, obj, sigma):
    """Object with extra phase noise of standard deviation ~sigma (still unit amplitude / V >= 0)."""
    n = np.random.default_rng([int(case["seed"]), 202]).standard_normal(obj.shape)
    if case["obj_type"] == "potential":
        return obj + sigma * np.abs(n)
    return obj * np.exp(1j * sigma * n)


def _aperture_phase(case, roi, extra_defocus=0.0):
    """Soft aperture and aberration phase on the DFT grid of the probe window (detector pixels)."""
    R, C = roi
    p = case["probe"]
    k0 = sim.dft_offsets(R).astype(np.float64)[:, None]
    k1 = sim.dft_offsets(C).astype(np.float64)[None, :]
    # radius is given in units of the smaller detector axis so that the aperture is round in angle
    # when the reciprocal sampling is isotropic; here pixels are fine: it only has to be a probe
    rad = float(p["radius"])
    q = np.sqrt(k0**2 + k1**2)
    soft = max(1e-3, float(p["soft"]))
    A = np.clip((rad - q) / soft + 0.5, 0.0, 1.0)
    rho2 = (k0**2 + k1**2) / rad**2  # 1 at the aperture edge
    phi = np.arctan2(k1, k0)
    chi = (float(p["defocus"]) + extra_defocus) * rho2 + float(p["astig"]) * rho2 * np.cos(2.0 * (phi - float(p["astig_angle"])))
    return A, chi, k0, k1


def truth_probe(case, extra_defocus=0.0):
    """(M, R, C) complex128 real-space probe modes, origin at [0, 0]: soft aperture x low-order
    aberration phase; higher modes carry an extra linear+quadratic phase; modes are orthogonalised
    (Gram-Schmidt, float64), scaled to the drawn relative weights (strictly decreasing) and to the total
    intensity `dose`, i.e. they are a fixed point of the library's default orthogonalisation/sorting.
    `extra_defocus` (rad at the aperture edge) is applied to every mode (a unitary, so the stack stays
    orthogonal with the same weights)."""
    R, C = case["roi"]
    M = int(case["M"])
    A, chi, k0, k1 = _aperture_phase(case, (R, C), 0.0)
    rng = np.random.default_rng([int(case["seed"]), 303])
    modes = []
    for m in range(M):
        extra = 0.0
        if m > 0:
            t = rng.uniform(-0.5, 0.5, 2)
            d = rng.uniform(-1.5, 1.5)
            extra = 2 * np.pi * (t[0] * k0 / R + t[1] * k1 / C) * 1.0 + d * (k0**2 + k1**2) / float(case["probe"]["radius"]) ** 2
            amp = A * (1.0 + 0.5 * rng.uniform(-1, 1, A.shape))
        else:
            amp = A
        modes.append(np.fft.ifft2(amp * np.exp(-1j * (chi + extra))))
    modes = np.array(modes)
    ortho = []
    for m in range(M):
        v = modes[m].copy()
        for u in ortho:
            v = v - np.vdot(u, v) * u
        nrm = np.linalg.norm(v)
        if nrm < 1e-9:
            raise ValueError("degenerate probe mode")
        ortho.append(v / nrm)
    w = np.array(case["probe"]["weights"][:M], dtype=np.float64)
    w = w / w.sum()
    probe = np.array(ortho) * np.sqrt(w * float(case["probe"]["dose"]))[:, None, None]
    if extra_defocus:
        rho2 = (k0**2 + k1**2) / float(case["probe"]["radius"]) ** 2
        probe = np.fft.ifft2(np.fft.fft2(probe) * np.exp(-1j * extra_defocus * rho2)[None])
    return probe


# ------------------------------------------------------------------------------------------------
# library objects
# ------------------------------------------------------------------------------------------------
COM_FIT = {"A": "no_shift", "B_constant": "constant", "B_plane": "plane"}


def make_dataset(case, intensities):
    """Dataset4dstem -> PtychographyDatasetRaster.preprocess (the library's own preprocessing)."""
    q = Q()
    g = geometry(case)
    g0, g1 = case["gpts"]
    R, C = case["roi"]
    arr = np.asarray(intensities, dtype=np.float32).reshape(g0, g1, R, C)
    d4 = q.Dataset4dstem.from_array(
        array=arr,
        sampling=(g["step_A"][0], g["step_A"][1], g["recip"][0], g["recip"][1]),
        units=("A", "A", "A^-1", "A^-1"),
    )
    pdset = q.PtychographyDatasetRaster.from_dataset4dstem(d4, verbose=0)
    pdset.preprocess(
        com_fit_function=COM_FIT[case["descan"]],
        plot_rotation=False,
        plot_com=False,
        probe_energy=float(case["energy"]),
        force_com_rotation=0,
        force_com_transpose=False,
    )
    return pdset


def _probe_model(case, energy):
    """Any probe of the right shape: the ground truth is installed later through the public setter."""
    q = Q()
    R, C = case["roi"]
    p0 = np.zeros((int(case["M"]), R, C), dtype=np.complex64)
    p0[:, 0, 0] = 1.0
    return q.ProbePixelated.from_array(
        probe_array=p0, probe_params={"energy": float(energy)}, rng=int(case["seed"]) % (2**31)
    )


def make_ptycho(case, pdset, obj_array=None, val=None):
    """Ptychography.from_models + preprocess.  obj_array None -> uniform object (used to ask the library
    for the object shape).  val = {"ratio", "mode"} -> validation split passed to preprocess.

    case["stale"] (optional) describes a live-edit history: the object is first built and preprocessed
    with stale physical parameters (another beam energy and/or scaled slice thicknesses, as left over from
    a template script), which are then corrected on the LIVE object through public setters
    (probe_model.probe_params = {"energy": E} | ptycho.probe_model = <model with the right energy>;
    ptycho.slice_thicknesses = [...]), optionally followed by a second public preprocess()."""
    q = Q()
    S = int(case["S"])
    thick = list(case["thick"]) if S > 1 else None
    seed = int(case["seed"]) % (2**31)
    stale = case.get("stale") or {}
    E = float(case["energy"])
    E0 = float(stale["energy"]) if stale.get("energy") else E
    thick0 = thick
    if thick is not None and stale.get("thick_scale"):
        thick0 = [float(t) * float(stale["thick_scale"]) for t in thick]
    if obj_array is None:
        om = q.ObjectPixelated.from_uniform(num_slices=S, slice_thicknesses=thick0, obj_type=case["obj_type"], rng=seed)
    else:
        om = q.ObjectPixelated.from_array(obj_array, slice_thicknesses=thick0, obj_type=case["obj_type"], rng=seed)
    pt = q.Ptychography.from_models(
        dset=pdset, obj_model=om, probe_model=_probe_model(case, E0), detector_model=q.DetectorPixelated(), rng=seed, verbose=0
    )
    kw = {}
    if val and float(val.get("ratio", 0)) > 0:
        kw = {"val_ratio": float(val["ratio"]), "val_mode": val["mode"]}
    pad = tuple(int(v) for v in case["pad"])
    pt.preprocess(obj_padding_px=pad, plot_rotation=False, plot_com=False, **kw)
    edited = False
    if E0 != E:
        if stale.get("via") == "swap_probe_model":
            pt.probe_model = _probe_model(case, E)
        else:
            pt.probe_model.probe_params = {"energy": E}
        edited = True
    if thick0 != thick:
        pt.slice_thicknesses = list(thick)
        edited = True
    if edited and stale.get("re_preprocess"):
        pt.preprocess(obj_padding_px=pad, plot_rotation=False, plot_com=False, **kw)
    return pt


def ask_geometry(case):
    """Let the library preprocess an all-ones dataset of the case's geometry and report the object
    shape, the (possibly enlarged) padding and the initial scan positions in pixels."""
    g0, g1 = case["gpts"]
    R, C = case["roi"]
    pdset = make_dataset(case, np.ones((g0 * g1, R, C)))
    pt = make_ptycho(case, pdset, None)
    return {
        "obj_shape": tuple(int(v) for v in pt.obj_shape_full),
        "pad": tuple(int(v) for v in pt.obj_padding_px),
        "positions": to_np(pt.dset.scan_positions_px).astype(np.float64).copy(),
        "obj_sampling": np.asarray(pt.sampling, dtype=np.float64).copy(),
    }


def configure(case, pt, loss_type):
    """The part of reconstruct() that precedes the iteration loop, for the case's descan mode."""
    cons = {"dataset": {}}
    if not case.get("clip", True):
        # NOTE: on the examined tree clip_scan_positions=False makes dset.forward raise KeyError
        # (apply_hard_constraints assigns the nn.Parameter itself to the property); not generated by C02
        cons["dataset"]["clip_scan_positions"] = False
    if case["descan"] != "A":
        pt.optimizer_params = {"dataset": {"type": "adam", "lr": 1e-3}}
        pt.set_optimizers()
        cons["dataset"]["descan_shifts_constant"] = True
    pt.constraints = cons
    pt.dset._set_targets(loss_type)
    pt.compute_propagator_arrays()


def install_probe(pt, probe):
    pt.probe_model.probe = np.asarray(probe, dtype=np.complex128)


def install_object(pt, obj):
    q = Q()
    par = pt.obj_model.params
    with q.torch.no_grad():
        par.copy_(q.torch.as_tensor(np.asarray(obj)).to(par.dtype))


def forward_loss(pt, batch, loss_type):
    """Exactly the statements of Ptychography.reconstruct's inner loop, up to the loss."""
    patch_indices, _pos, frac, descan = pt.dset.forward(batch, pt.obj_padding_px)
    shifted = pt.probe_model.forward(frac)
    patches = pt.obj_model.forward(patch_indices)
    _prop, overlap = pt.forward_operator(patches, shifted, descan)
    pred = pt.detector_model.forward(overlap)
    loss, _targets = pt.error_estimate(pred, batch, loss_type=loss_type)
    return loss, pred

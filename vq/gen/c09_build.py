"""Builder for the C09 ptychography cases: a tiny Ptychography problem through the public constructors
(Dataset4dstem -> PtychographyDatasetRaster.preprocess -> ProbePixelated.from_array /
ObjectPixelated.from_array -> Ptychography.from_models -> preprocess).  Everything is a pure function
of the JSON-able case (drawn integers used as numpy seeds).  quantem is imported lazily.

The "measured" intensities are random positive numbers: the C09 property is about the scheduling of
patterns and the scaling of losses, not about the physics, so the data need not be a simulation."""

from __future__ import annotations

import numpy as np

_Q = None


class _NS:
    pass


def q():
    global _Q
    if _Q is None:
        import torch
        from quantem.core import config
        from quantem.core.datastructures.dataset4dstem import Dataset4dstem
        from quantem.core.utils import utils as core_utils
        from quantem.diffractive_imaging import ptycho_utils
        from quantem.diffractive_imaging.dataset_models import PtychographyDatasetRaster
        from quantem.diffractive_imaging.detector_models import DetectorPixelated
        from quantem.diffractive_imaging.object_models import ObjectPixelated
        from quantem.diffractive_imaging.probe_models import ProbePixelated
        from quantem.diffractive_imaging.ptychography import Ptychography

        o = _NS()
        o.torch = torch
        o.config = config
        o.Dataset4dstem = Dataset4dstem
        o.utils = core_utils
        o.pu = ptycho_utils
        o.SimpleBatcher = ptycho_utils.SimpleBatcher
        o.PtychographyDatasetRaster = PtychographyDatasetRaster
        o.DetectorPixelated = DetectorPixelated
        o.ObjectPixelated = ObjectPixelated
        o.ProbePixelated = ProbePixelated
        o.Ptychography = Ptychography
        _Q = o
    return _Q


class Precision:
    """with Precision(hi): float64/complex128 configuration when hi, else float32/complex64."""

    def __init__(self, hi):
        self.hi = bool(hi)

    def __enter__(self):
        c = q().config
        self.old = (c.get("dtype_real"), c.get("dtype_complex"))
        new = ("float64", "complex128") if self.hi else ("float32", "complex64")
        c.set({"dtype_real": new[0], "dtype_complex": new[1]})
        return self

    def __exit__(self, *a):
        q().config.set({"dtype_real": self.old[0], "dtype_complex": self.old[1]})


def _cplx(rng, shape):
    return rng.standard_normal(shape) + 1j * rng.standard_normal(shape)


def build(case):
    """One preprocessed Ptychography instance.  Keys used: R, C (roi), gpts [g0, g1], S (slices),
    M (probe modes), obj_type, pad [p0, p1], seed, val_ratio, val_mode, optional rng_form ("int":
    every model gets the int seed; "gen": every model gets its own fresh np.random.default_rng(seed))
    and descan_jitter (non-constant initial descan shifts, so that a descan TV term is non-zero).
    case["seed"] may be any non-negative int (also >= 2**32).  Two calls with the same case give two
    independent, identically initialised instances."""
    Q = q()
    R, C = int(case["R"]), int(case["C"])
    g0, g1 = (int(v) for v in case["gpts"])
    S, M = int(case["S"]), int(case["M"])
    seed = int(case["seed"])
    obj_type = case["obj_type"]
    energy = 80e3
    samp = np.array([0.4, 0.5])  # object sampling, Angstrom
    step = np.array([1.7, 2.3]) * samp  # scan step: non-commensurate, fractional pixel positions
    rs = 1.0 / (samp * np.array([R, C]))
    rng = np.random.default_rng(seed)
    arr = (rng.random((g0, g1, R, C)) + 0.1).astype(np.float32)
    d4 = Q.Dataset4dstem.from_array(array=arr, sampling=(step[0], step[1], rs[0], rs[1]), units=("A", "A", "A^-1", "A^-1"))
    pdset = Q.PtychographyDatasetRaster.from_dataset4dstem(d4, verbose=0)
    pdset.preprocess(
        com_fit_function="constant",
        plot_rotation=False,
        plot_com=False,
        probe_energy=energy,
        force_com_rotation=0,
        force_com_transpose=False,
    )
    probe = _cplx(rng, (M, R, C))
    cdt = getattr(Q.torch, Q.config.get("dtype_complex"))
    thick = 8.0 if S > 1 else None

    form = case.get("rng_form", "int")

    def sd():
        return seed if form == "int" else np.random.default_rng(seed)

    if case.get("descan_jitter"):
        base = pdset.initial_descan_shifts.detach().cpu().numpy().astype(np.float64)
        pdset.initial_descan_shifts = base + np.random.default_rng(seed + 3).uniform(-0.5, 0.5, base.shape)
        pdset.reset()

    def mk(om):
        pm = Q.ProbePixelated.from_array(probe_array=probe, probe_params={"energy": energy}, rng=sd(), dtype=cdt)
        pt = Q.Ptychography.from_models(
            dset=pdset, obj_model=om, probe_model=pm, detector_model=Q.DetectorPixelated(), rng=sd(), verbose=0
        )
        pt.preprocess(
            obj_padding_px=tuple(int(v) for v in case["pad"]),
            val_ratio=float(case.get("val_ratio", 0.0)),
            val_mode=case.get("val_mode", "grid"),
            plot_rotation=False,
            plot_com=False,
        )
        return pt

    pt = mk(Q.ObjectPixelated.from_uniform(num_slices=S, slice_thicknesses=thick, obj_type=obj_type, rng=sd()))
    shp = tuple(int(v) for v in pt.obj_shape_full)
    if obj_type == "potential":
        o = rng.uniform(0.05, 1.0, shp)  # strictly positive: positivity clamp inactive, gradients not vacuous
    else:
        o = rng.uniform(0.5, 1.5, shp) * np.exp(1j * rng.uniform(-np.pi, np.pi, shp))
    return mk(Q.ObjectPixelated.from_array(o, slice_thicknesses=thick, obj_type=obj_type, rng=sd()))

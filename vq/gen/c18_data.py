"""C18 generators: 4-D datasets (pure functions of small JSON-able descriptions) and the Hypothesis
strategies that draw those descriptions."""

from __future__ import annotations

import numpy as np
from hypothesis import strategies as st

PATTERNS = ["uniform", "blob", "counts", "delta"]
SEEDS = st.integers(0, 2**31 - 1)
# global intensity scale 10^u, u in -9..9, applied in float64 before the cast to the storage dtype: the
# centre of mass does not depend on it, and every pattern value stays a normal float32 (>= 1e-12)
SCALES = st.integers(-9, 9).map(lambda u: float(10.0**u))


def target_coordinate(draw, H, W):
    """Target of a shift: the detector corner (default) or, in a third of the draws, another integer pixel."""
    if draw(st.integers(0, 2)) != 0:
        return [0, 0]
    return [draw(st.integers(0, H - 1)), draw(st.integers(0, W - 1))]


# ------------------------------------------------------------------------------------------------
# deterministic builders (used by check(): a case is its own replay)
# ------------------------------------------------------------------------------------------------
def int_plane(shape, coef):
    a, b = shape
    i, j = np.meshgrid(np.arange(a), np.arange(b), indexing="ij")
    return int(coef[0]) + int(coef[1]) * i + int(coef[2]) * j


def make_patterns(case):
    """(a, b, H, W) array of strictly positive intensities in the dtype named by the case."""
    a, b = case["scan"]
    H, W = case["det"]
    kind = case["pattern"]
    rng = np.random.default_rng(case["seed"])
    rr = np.arange(H, dtype=np.float64)[:, None]
    cc = np.arange(W, dtype=np.float64)[None, :]
    if kind == "uniform":
        arr = rng.random((a, b, H, W)) + 0.05
    elif kind in ("blob", "counts"):
        # one off-centre Gaussian disc per pattern on a small positive background
        cr = rng.uniform(0, H - 1, (a, b, 1, 1))
        cq = rng.uniform(0, W - 1, (a, b, 1, 1))
        sr = rng.uniform(0.6, 2.5, (a, b, 1, 1))
        sq = rng.uniform(0.6, 2.5, (a, b, 1, 1))
        arr = np.exp(-0.5 * (((rr - cr) / sr) ** 2 + ((cc - cq) / sq) ** 2)) + rng.uniform(0.005, 0.1)
        if kind == "counts":
            arr = rng.poisson(arr * rng.choice([5.0, 50.0, 2000.0])).astype(np.float64) + 1.0
    elif kind == "big":
        # large datasets: float32 noise made directly in float32 plus one bright pixel per pattern at a
        # seed-derived position, so every pattern has its own clearly off-centre centre of mass
        arr = rng.random((a, b, H, W), dtype=np.float32) + np.float32(0.05)
        ii, jj = np.meshgrid(np.arange(a), np.arange(b), indexing="ij")
        arr[ii, jj, rng.integers(0, H, (a, b)), rng.integers(0, W, (a, b))] += np.float32(0.25 * H * W)
        arr *= np.float32(2.0 ** int(case.get("scale_pow2", 0)))  # exact in float32
        if np.dtype(case["dtype"]) != np.float32 or not np.all(arr > 0):
            raise ValueError("big patterns are float32 and positive (generator bug)")
        return arr
    elif kind == "delta":
        # one bright pixel at an integer position that is an integer plane (or a constant) over the
        # scan, on a uniform positive background: the exact centre of mass is an affine function of
        # the bright-pixel position, hence itself exactly a plane (or a constant) over the scan
        pr = int_plane((a, b), case["plane_r"])
        pc = int_plane((a, b), case["plane_c"])
        if pr.min() < 0 or pr.max() > H - 1 or pc.min() < 0 or pc.max() > W - 1:
            raise ValueError("delta positions outside the detector (generator bug)")
        arr = np.full((a, b, H, W), float(case["bg"]))
        ii, jj = np.meshgrid(np.arange(a), np.arange(b), indexing="ij")
        arr[ii, jj, pr, pc] += float(case["amp"])
    else:
        raise ValueError(kind)
    arr = arr * float(case.get("scale", 1.0))
    dt = np.dtype(case["dtype"])
    out = arr.astype(dt)
    if not np.all(out > 0):
        raise ValueError("non-positive intensity (generator bug)")
    return out


def make_mask(case):
    """None, or an (H, W) detector mask with at least one non-zero pixel (bool for binary, float64
    multiples of 1/8 for soft)."""
    m = case.get("mask")
    if m is None:
        return None
    H, W = case["det"]
    rng = np.random.default_rng(m["seed"])
    if m["type"] == "binary":
        mask = rng.random((H, W)) < m["keep"]
        mask.flat[int(rng.integers(0, H * W))] = True
        return mask
    mask = rng.integers(0, 9, (H, W)).astype(np.float64) / 8.0
    mask.flat[int(rng.integers(0, H * W))] = 1.0
    return mask


def real_plane_coef(L, n_i, n_j, u_i, u_j, t):
    """Plane coefficients [z0, m_i, m_j] from unit parameters such that z0 + m_i*i + m_j*j stays in
    [0, L-1] for all 0 <= i < n_i, 0 <= j < n_j (an origin is a detector coordinate)."""
    m_i = u_i * (L - 1) / (n_i - 1) / 2.0
    m_j = u_j * (L - 1) / (n_j - 1) / 2.0
    lo = min(0.0, m_i * (n_i - 1)) + min(0.0, m_j * (n_j - 1))
    hi = max(0.0, m_i * (n_i - 1)) + max(0.0, m_j * (n_j - 1))
    z0 = -lo + t * ((L - 1) - (hi - lo))
    return [z0, m_i, m_j]


# ------------------------------------------------------------------------------------------------
# strategies
# ------------------------------------------------------------------------------------------------
@st.composite
def geometry(draw):
    a = draw(st.integers(2, 6))
    b = draw(st.integers(2, 6))
    H = draw(st.integers(3, 12))
    W = draw(st.integers(3, 12))
    if W == H and draw(st.integers(0, 7)) != 0:  # mostly non-square, by construction
        W = H + 1 if H < 12 else H - 1
    return [a, b], [H, W]


@st.composite
def _int_plane_coef(draw, L, n_i, n_j, constant):
    """Integer plane [z0, m_i, m_j] with all values in [0, L-1] (construction, not rejection)."""
    if constant:
        return [draw(st.integers(0, L - 1)), 0, 0]
    k = (L - 1) // (n_i - 1)
    m_i = draw(st.integers(-k, k))
    rem = (L - 1) - abs(m_i) * (n_i - 1)
    k = rem // (n_j - 1)
    m_j = draw(st.integers(-k, k))
    lo = min(0, m_i * (n_i - 1)) + min(0, m_j * (n_j - 1))
    hi = max(0, m_i * (n_i - 1)) + max(0, m_j * (n_j - 1))
    z0 = draw(st.integers(-lo, (L - 1) - hi))
    return [z0, m_i, m_j]


@st.composite
def com_cases(draw):
    scan, det = draw(geometry())
    n = scan[0] * scan[1]
    pattern = draw(st.sampled_from(PATTERNS))
    case = {"kind": "com", "scan": scan, "det": det, "pattern": pattern, "seed": draw(SEEDS)}
    case["fit"] = draw(st.sampled_from(["plane", "constant"]))
    if pattern == "counts":
        case["dtype"] = draw(st.sampled_from(["uint16", "int32", "float32", "float64"]))
    else:
        case["dtype"] = draw(st.sampled_from(["float32", "float64"]))
        case["scale"] = draw(SCALES)
    if pattern == "delta":
        const = case["fit"] == "constant"
        case["plane_r"] = draw(_int_plane_coef(det[0], scan[0], scan[1], const))
        case["plane_c"] = draw(_int_plane_coef(det[1], scan[0], scan[1], const))
        case["amp"] = draw(st.sampled_from([1.0, 4.0, 37.5, 1000.0]))
        case["bg"] = draw(st.sampled_from([0.001, 0.03125, 0.5, 1.0]))
    case["batches"] = draw(st.lists(st.integers(1, n), min_size=1, max_size=3, unique=True))
    mtype = draw(st.sampled_from(["none", "binary", "none", "soft", "binary"]))
    if mtype == "none":
        case["mask"] = None
    else:
        case["mask"] = {"type": mtype, "seed": draw(SEEDS), "keep": draw(st.sampled_from([0.9, 0.5, 0.1, 0.0]))}
    return case


_UNIT = st.one_of(st.sampled_from([0.0, 1.0, -1.0, 0.5, -0.25]), st.floats(-1.0, 1.0, allow_nan=False))
_FRAC = st.one_of(st.sampled_from([0.0, 1.0, 0.5]), st.floats(0.0, 1.0, allow_nan=False))


@st.composite
def fit_cases(draw):
    scan, det = draw(geometry())
    method = draw(st.sampled_from(["plane", "plane", "constant"]))
    case = {"kind": "fit", "scan": scan, "det": det, "method": method}
    # a constant is also a plane: a quarter of the plane fits get exactly flat origin maps
    flat = method == "plane" and draw(st.integers(0, 3)) == 0
    for key, L in (("surf_r", det[0]), ("surf_c", det[1])):
        if method == "constant" or flat:
            case[key] = [draw(_FRAC) * (L - 1), 0.0, 0.0]
        else:
            case[key] = real_plane_coef(L, scan[0], scan[1], draw(_UNIT), draw(_UNIT), draw(_FRAC))
    case["data_dtype"] = draw(st.sampled_from(["float64", "float64", "float32"]))
    case["fo_mask"] = draw(st.sampled_from(["default", "all_true"]))
    case["positions"] = draw(probe_positions_desc())
    return case


@st.composite
def probe_positions_desc(draw):
    """None (positions inferred from the dataset) or explicit probe positions: the index grid itself or
    an invertible affine image of it (scan step 1..4 units per axis, any rotation, offset within +-20),
    handed over as float32/float64 tensor, ndarray or nested list, flat (N, 2) or gridded (a, b, 2).
    A plane over the scan indices is a plane over any such positions, with the same values."""
    which = draw(st.sampled_from(["none", "index", "affine", "affine"]))
    if which == "none":
        return None
    d = {
        "form": draw(st.sampled_from(["tensor32", "tensor64", "ndarray", "list"])),
        "layout": draw(st.sampled_from(["flat", "grid"])),
        "scale": [1.0, 1.0],
        "angle": 0.0,
        "offset": [0.0, 0.0],
    }
    if which == "affine":
        step = st.one_of(st.sampled_from([1.0, 2.0, 4.0, 1.5]), st.floats(1.0, 4.0, allow_nan=False))
        d["scale"] = [draw(step), draw(step)]
        d["angle"] = draw(st.one_of(st.sampled_from([0.0, 1.5707963267948966, 0.3]), st.floats(-3.141592653589793, 3.141592653589793, allow_nan=False)))
        off = st.one_of(st.sampled_from([0.0, 10.0, -3.5]), st.floats(-20.0, 20.0, allow_nan=False))
        d["offset"] = [draw(off), draw(off)]
    return d


def make_positions(scan, d):
    """float64 ndarray of probe positions in the layout the description asks for."""
    a, b = scan
    i, j = np.meshgrid(np.arange(a, dtype=np.float64), np.arange(b, dtype=np.float64), indexing="ij")
    th = float(d["angle"])
    A = np.array([[np.cos(th), -np.sin(th)], [np.sin(th), np.cos(th)]]) @ np.diag([float(d["scale"][0]), float(d["scale"][1])])
    P = np.stack([i.ravel(), j.ravel()], axis=-1) @ A.T + np.asarray(d["offset"], dtype=np.float64)
    return P.reshape(a, b, 2) if d["layout"] == "grid" else P


@st.composite
def shift_cases(draw):
    scan, det = draw(geometry())
    n = scan[0] * scan[1]
    H, W = det
    case = {"kind": "shift", "scan": scan, "det": det, "seed": draw(SEEDS)}
    case["pattern"] = draw(st.sampled_from(["uniform", "blob"]))
    case["dtype"] = "float32"
    case["scale"] = draw(SCALES)
    case["coordinate"] = target_coordinate(draw, H, W)
    pair = st.tuples(st.integers(0, H - 1), st.integers(0, W - 1)).map(list)
    if draw(st.integers(0, 4)) == 0:
        case["origins"] = [draw(pair)]  # one origin for all patterns (setter broadcasts)
    else:
        case["origins"] = draw(st.lists(pair, min_size=n, max_size=n))
    case["batch"] = draw(st.one_of(st.none(), st.integers(1, n)))
    case["mode"] = draw(st.sampled_from(["bilinear", "bilinear", "bilinear", "nearest", "bicubic"]))
    return case


# ------------------------------------------------------------------------------------------------
# histories on ONE model instance (data replaced through the public setters between measurements)
# ------------------------------------------------------------------------------------------------
@st.composite
def pattern_desc(draw, scan, det):
    """One data version: everything make_patterns needs besides scan/det."""
    pattern = draw(st.sampled_from(PATTERNS))
    d = {"pattern": pattern, "seed": draw(SEEDS)}
    if pattern == "counts":
        d["dtype"] = draw(st.sampled_from(["uint16", "int32", "float32", "float64"]))
    else:
        d["dtype"] = draw(st.sampled_from(["float32", "float64"]))
        d["scale"] = draw(SCALES)
    if pattern == "delta":
        const = draw(st.booleans())
        d["plane_r"] = draw(_int_plane_coef(det[0], scan[0], scan[1], const))
        d["plane_c"] = draw(_int_plane_coef(det[1], scan[0], scan[1], const))
        d["amp"] = draw(st.sampled_from([1.0, 4.0, 37.5, 1000.0]))
        d["bg"] = draw(st.sampled_from([0.001, 0.03125, 0.5, 1.0]))
    return d


def version_array(case, k):
    d = dict(case["data"][k])
    d["scan"], d["det"] = case["scan"], case["det"]
    return make_patterns(d)


def _mask_desc(draw):
    mtype = draw(st.sampled_from(["none", "binary", "none", "soft"]))
    if mtype == "none":
        return None
    return {"type": mtype, "seed": draw(SEEDS), "keep": draw(st.sampled_from([0.9, 0.5, 0.1]))}


@st.composite
def _origin_op(draw, name, scan, det, nver):
    n = scan[0] * scan[1]
    H, W = det
    if name == "measure":
        return {"op": name, "batch": draw(st.one_of(st.none(), st.integers(1, n)))}
    if name == "set_tensor":
        return {"op": name, "version": draw(st.integers(0, nver - 1)), "as": draw(st.sampled_from(["torch", "torch", "numpy"]))}
    if name == "fit":
        return {"op": name, "method": draw(st.sampled_from(["plane", "constant"]))}
    if name == "set_measured":
        method = draw(st.sampled_from(["plane", "constant"]))
        op = {"op": name, "method": method}
        for key, L in (("surf_r", H), ("surf_c", W)):
            if method == "constant":
                op[key] = [draw(_FRAC) * (L - 1), 0.0, 0.0]
            else:
                op[key] = real_plane_coef(L, scan[0], scan[1], draw(_UNIT), draw(_UNIT), draw(_FRAC))
        return op
    if name == "set_fitted":
        pair = st.tuples(st.integers(0, H - 1), st.integers(0, W - 1)).map(list)
        variant = draw(st.sampled_from(["per_pattern", "at_target", "single", "per_pattern"]))
        if variant == "at_target":  # already on the corner: the shift is the identity
            return {"op": name, "origins": [[0, 0]] if draw(st.booleans()) else [[0, 0]] * n}
        if variant == "single":
            return {"op": name, "origins": [draw(pair)]}
        return {"op": name, "origins": draw(st.lists(pair, min_size=n, max_size=n))}
    if name == "shift":
        return {
            "op": name,
            "batch": draw(st.one_of(st.none(), st.integers(1, n))),
            "mode": draw(st.sampled_from(["bilinear", "bilinear", "nearest", "bicubic"])),
            "coordinate": target_coordinate(draw, H, W),
        }
    if name == "forward":
        # the one-call workflow: measure, fit, (shift to the target coordinate)
        return {
            "op": name,
            "batch": draw(st.one_of(st.none(), st.integers(1, n))),
            "method": draw(st.sampled_from(["plane", "constant"])),
            "shift": draw(st.booleans()),
            "mode": draw(st.sampled_from(["bilinear", "nearest", "bicubic"])),
            "coordinate": target_coordinate(draw, H, W),
        }
    return {"op": name}  # set_device, set_shifted


_ORIGIN_OPS = ["measure", "measure", "set_tensor", "set_tensor", "fit", "fit", "set_measured", "set_fitted", "set_fitted", "shift", "shift", "forward", "forward", "set_device", "set_shifted"]
_ORIGIN_FILL = [o for o in _ORIGIN_OPS if o not in ("measure", "set_tensor")]


@st.composite
def origin_history_cases(draw):
    """[free ops] measure [ops] set_tensor [ops] measure [free ops]: the re-measurement of replaced
    data is in every history; everything around it is drawn."""
    scan, det = draw(geometry())
    nver = draw(st.integers(2, 3))
    case = {"kind": "ohist", "scan": scan, "det": det}
    case["data"] = [draw(pattern_desc(scan, det)) for _ in range(nver)]
    case["initial"] = draw(st.integers(0, nver - 1))

    def ops(pool, lo, hi):
        names = draw(st.lists(st.sampled_from(pool), min_size=lo, max_size=hi))
        out = []
        for nm in names:
            # most shifts get integer origins first, half the fits get exactly planar measured origins
            # first (only those are judged); the rest meet whatever state the history left behind
            if nm == "shift" and draw(st.integers(0, 3)) != 0:
                out.append(draw(_origin_op("set_fitted", scan, det, nver)))
            if nm == "fit" and draw(st.booleans()):
                out.append(draw(_origin_op("set_measured", scan, det, nver)))
            out.append(draw(_origin_op(nm, scan, det, nver)))
            if nm == "shift" and draw(st.integers(0, 2)) == 0:
                # a series of shifts on the same instance, each with freshly set origins
                for _ in range(draw(st.integers(1, 2))):
                    out.append(draw(_origin_op("set_fitted", scan, det, nver)))
                    out.append(draw(_origin_op("shift", scan, det, nver)))
        return out

    steps = ops(_ORIGIN_OPS, 0, 3)
    steps.append(draw(_origin_op("measure", scan, det, nver)))
    steps += ops(_ORIGIN_FILL, 0, 2)
    steps.append(draw(_origin_op("set_tensor", scan, det, nver)))
    steps += ops(_ORIGIN_FILL, 0, 2)
    steps.append(draw(_origin_op("measure", scan, det, nver)))
    steps += ops(_ORIGIN_OPS, 0, 4)
    if steps[-1]["op"] != "measure":
        # whatever the history did, the instance must still describe its data at the end
        steps.append(draw(_origin_op("measure", scan, det, nver)))
    case["steps"] = steps
    return case


def _preprocess_op(draw):
    # forced orientation skips preprocess' own rotation/transpose estimate (not this property)
    return {
        "op": "preprocess",
        "vectorized": draw(st.booleans()),
        "fit": draw(st.sampled_from(["plane", "constant"])),
        "force_orientation": draw(st.integers(0, 3)) != 0,
    }


@st.composite
def dataset_history_cases(draw):
    scan, det = draw(geometry())
    nver = draw(st.integers(2, 3))
    case = {"kind": "dhist", "scan": scan, "det": det}
    case["data"] = [draw(pattern_desc(scan, det)) for _ in range(nver)]
    case["initial"] = draw(st.integers(0, nver - 1))
    steps = []
    for nm in draw(st.lists(st.sampled_from(["com", "com", "com", "preprocess", "set_intensities", "set_intensities", "set_com"]), min_size=2, max_size=6)):
        if nm == "com":
            steps.append(
                {
                    "op": nm,
                    "src": draw(st.one_of(st.just("attr"), st.integers(0, nver - 1))),
                    "vectorized": draw(st.booleans()),
                    "fit": draw(st.sampled_from(["plane", "constant"])),
                    "mask": _mask_desc(draw),
                }
            )
        elif nm == "preprocess":
            steps.append(_preprocess_op(draw))
        elif nm == "set_intensities":
            steps.append({"op": nm, "version": draw(st.integers(0, nver - 1))})
        else:
            steps.append({"op": nm})
    # every history ends by measuring whatever is stored now, through one of the two entry points
    steps.append({"op": "set_intensities", "version": draw(st.integers(0, nver - 1))})
    if draw(st.booleans()):
        steps.append(_preprocess_op(draw))
    else:
        steps.append({"op": "com", "src": "attr", "vectorized": draw(st.booleans()), "fit": draw(st.sampled_from(["plane", "constant"])), "mask": _mask_desc(draw)})
    case["steps"] = steps
    return case


# ------------------------------------------------------------------------------------------------
# shift with one enumerated (large) detector side
# ------------------------------------------------------------------------------------------------
@st.composite
def side_shift_cases(draw, side, mode):
    """A `shift` case whose detector has `side` pixels along a drawn axis (the other axis is small),
    a 1x2 or 2x2 scan, and origins over the full range of the long axis; the first pattern's origin
    along that axis is one of side-1, 1, side//2 (never 0)."""
    axis = draw(st.integers(0, 1))
    other = draw(st.integers(2, 6))
    det = [side, other] if axis == 0 else [other, side]
    scan = draw(st.sampled_from([[1, 2], [2, 2]]))
    n = scan[0] * scan[1]
    case = {"kind": "shift", "scan": scan, "det": det, "seed": draw(SEEDS), "pattern": "uniform", "dtype": "float32"}
    case["scale"] = draw(SCALES)
    case["coordinate"] = target_coordinate(draw, det[0], det[1])
    origins = []
    for k in range(n):
        if k == 0:
            long = draw(st.sampled_from([side - 1, 1, side // 2]))
        else:
            long = draw(st.one_of(st.sampled_from([side - 1, 1, side // 2, 0]), st.integers(0, side - 1)))
        short = draw(st.integers(0, other - 1))
        origins.append([long, short] if axis == 0 else [short, long])
    case["origins"] = origins
    case["batch"] = draw(st.one_of(st.none(), st.integers(1, n)))
    case["mode"] = mode
    case["enumerated_side"] = side
    return case


# ------------------------------------------------------------------------------------------------
# large datasets: total number of intensity values right below / right above a power of two
# ------------------------------------------------------------------------------------------------
PRIMES = [5, 7, 11, 13, 17, 19, 23, 29, 31, 37, 41]


@st.composite
def big_com_cases(draw, exp, side):
    """A `com`-like case whose dataset holds the largest (side='below') or smallest (side='above')
    number of values a*b*H*W on that side of 2**exp that the drawn a, H, W allow.  The number of scan
    rows a is prime, so no partition of the scan into equal groups of rows is exact; detector sides
    32..128."""
    a = draw(st.sampled_from(PRIMES))
    H = draw(st.integers(32, 128))
    W = draw(st.integers(32, 128))
    if W == H:
        W = H + 1 if H < 128 else H - 1
    T = 2**exp
    unit = a * H * W
    b = max(1, (T - 1) // unit) if side == "below" else -(-T // unit)
    n = a * b
    case = {"kind": "bigcom", "scan": [a, b], "det": [H, W], "pattern": "big", "dtype": "float32", "seed": draw(SEEDS)}
    case["near"] = "2^%d-%s" % (exp, side)
    case["scale_pow2"] = draw(st.integers(-30, 30))
    case["fit"] = draw(st.sampled_from(["plane", "constant"]))
    case["batches"] = [draw(st.integers(max(1, n // 7), n))]
    case["mask"] = {"type": "binary", "seed": draw(SEEDS), "keep": 0.5} if draw(st.integers(0, 2)) == 0 else None
    return case

"""Builders for the C10 cases: every array is a pure function of the JSON-able case description
(drawn integers used as numpy seeds + drawn profile parameters).  Nothing here imports quantem."""

from __future__ import annotations

import math

import numpy as np

F32_ULP_BELOW_1 = float(np.nextafter(np.float32(1.0), np.float32(0.0)))
F32_ULP_ABOVE_1 = float(np.nextafter(np.float32(1.0), np.float32(2.0)))
EDGE_MAGS = [0.0, 1.0, F32_ULP_BELOW_1, F32_ULP_ABOVE_1, 0.5, 2.0, 1e6, 1e-6, 1.0 + 1e-3, 1.0 - 1e-3]


# ------------------------------------------------------------------------------------------------
# raw object parameters
# ------------------------------------------------------------------------------------------------
def raw_object(case):
    """Raw parameter tensor (S, h, w): complex128 for complex/pure_phase objects, float64 for
    potential objects.  Magnitudes log-uniform in 10**[lo, hi] (lo, hi within -6..6), optional exact
    zeros / exact ones / float32 neighbours of 1, phases uniform or crowded at +-pi."""
    rng = np.random.default_rng(case["seed"])
    shape = (case["S"], case["h"], case["w"])
    lo, hi = case["mag"]
    mag = 10.0 ** rng.uniform(lo, hi, shape)
    special = case.get("special", "none")
    if special == "zeros":
        mag[rng.random(shape) < 0.3] = 0.0
    elif special == "edge":
        pick = rng.integers(0, len(EDGE_MAGS), shape)
        use = rng.random(shape) < 0.6
        mag = np.where(use, np.asarray(EDGE_MAGS)[pick], mag)
    elif special == "allzero":
        mag[:] = 0.0
    pm = case.get("phase", "uniform")
    if pm == "uniform":
        ph = rng.uniform(-math.pi, math.pi, shape)
    elif pm == "pi":  # crowded at the branch cut, both sides
        ph = (math.pi - 10.0 ** rng.uniform(-7, -1, shape)) * rng.choice([-1.0, 1.0], shape)
    elif pm == "zero":
        ph = np.zeros(shape)
    else:  # "const": one common phase
        ph = np.full(shape, rng.uniform(-math.pi, math.pi))
    if case["obj_type"] == "potential":
        sign = np.where(np.cos(ph) >= 0, 1.0, -1.0)
        if pm == "zero":
            sign = np.ones(shape)
        elif pm == "const":
            sign = -np.ones(shape)
        return sign * mag
    if pm == "pi" and case.get("negreal"):
        # exactly on the negative real axis, imaginary part +0.0 / -0.0
        z = np.empty(shape, dtype=np.complex128)
        z.real = -mag
        z.imag = np.where(rng.random(shape) < 0.5, 0.0, -0.0)
        return z
    return mag * np.exp(1j * ph)


def fov_mask(case):
    """Field-of-view mask with values in [0, 1], or None: 2-D (h, w), or - with mask["per_slice"] on a multislice
    object - the 3-D form (S, h, w) the mask setter also accepts, with a different mask on every slice."""
    m = case.get("mask")
    if m is None or m["mode"] in ("none", "unset"):
        return None
    if m.get("per_slice") and case.get("S", 1) > 1:
        return np.stack([fov_mask(dict(case, mask=dict(m, per_slice=False, seed=m["seed"] + 7919 * s))) for s in range(case["S"])])
    rng = np.random.default_rng(m["seed"])
    shape = (case["h"], case["w"])
    mode = m["mode"]
    if mode == "ones":
        return np.ones(shape)
    if mode == "zeros":
        return np.zeros(shape)
    if mode == "binary":
        return (rng.random(shape) < 0.6).astype(np.float64)
    if mode == "frac":  # arbitrary values in [0, 1] with exact 0 and 1 mixed in
        a = rng.random(shape)
        r = rng.random(shape)
        a[r < 0.15] = 0.0
        a[r > 0.85] = 1.0
        return a
    if mode == "smooth":  # what the real caller builds: a blurred binary support
        import scipy.ndimage as ndi

        b = np.zeros(shape)
        r0, r1 = sorted(rng.integers(0, shape[0] + 1, 2))
        c0, c1 = sorted(rng.integers(0, shape[1] + 1, 2))
        b[r0 : max(r1, r0 + 1), c0 : max(c1, c0 + 1)] = 1.0
        g = ndi.gaussian_filter(b, sigma=float(m.get("sigma", 1.0)))
        return np.clip(g, 0.0, 1.0)
    if mode == "const":
        return np.full(shape, float(m["value"]))
    raise ValueError(mode)


# ------------------------------------------------------------------------------------------------
# probe stacks with a prescribed Gram (correlation) structure
# ------------------------------------------------------------------------------------------------
def corr_matrix(case):
    """Hermitian positive-definite M x M matrix with unit diagonal and |off-diagonal| <= cmax."""
    M = case["M"]
    st = case["corr"]
    c = float(st["c"])
    rng = np.random.default_rng(st.get("seed", 0))
    t = st["type"]
    if M == 1:
        return np.ones((1, 1), dtype=np.complex128)
    if t == "uniform":
        C = np.full((M, M), c, dtype=np.complex128)
    elif t == "phased":  # D C D^H with unit-modulus D: same moduli, arbitrary phases
        d = np.exp(1j * rng.uniform(-math.pi, math.pi, M))
        C = np.full((M, M), c, dtype=np.complex128) * np.outer(d, d.conj())
    elif t == "chain":  # AR(1): neighbours correlated c, then c^2 ...
        i = np.arange(M)
        C = (c ** np.abs(i[:, None] - i[None, :])).astype(np.complex128)
        d = np.exp(1j * rng.uniform(-math.pi, math.pi, M))
        C = C * np.outer(d, d.conj())
    elif t == "random":  # random PSD, rescaled so that the largest |off-diagonal| is exactly c
        B = rng.standard_normal((M, M)) + 1j * rng.standard_normal((M, M))
        G = B @ B.conj().T
        dd = np.sqrt(np.real(np.diag(G)))
        R = G / np.outer(dd, dd)
        off = R - np.diag(np.diag(R))
        mx = np.max(np.abs(off))
        # shrinking the off-diagonal part of a PSD unit-diagonal matrix keeps it PSD (convex mix with
        # I): lambda_min(I + s*off) = 1 - s*(1 - lambda_min(R)).  Keep lambda_min >= 0.01 (the value
        # of five modes with uniform correlation 0.99) so "linearly independent" also holds numerically.
        s = min(1.0, c / mx) if mx > 0 else 1.0
        lmin = float(np.linalg.eigvalsh(R)[0])
        s = min(s, 0.99 / max(1.0 - lmin, 1e-12))
        C = np.eye(M, dtype=np.complex128) + s * off
    else:
        raise ValueError(t)
    C[np.diag_indices(M)] = 1.0
    return C


def probe_stack(case):
    """(M, h, w) complex128 modes whose Gram matrix is diag(n) C diag(n) exactly (in float64):
    rows of L Q with L = chol(C) and Q a random set of M orthonormal vectors of C^(h*w)."""
    M, h, w = case["M"], case["h"], case["w"]
    n = h * w
    assert n >= M
    rng = np.random.default_rng(case["seed"])
    A = rng.standard_normal((n, M)) + 1j * rng.standard_normal((n, M))
    if case.get("envelope"):
        # probe-like: energy concentrated near the corner (corner-centred real-space probe)
        yy = np.minimum(np.arange(h), h - np.arange(h))[:, None]
        xx = np.minimum(np.arange(w), w - np.arange(w))[None, :]
        env = np.exp(-(yy**2 + xx**2) / (2.0 * (0.35 * max(h, w)) ** 2)).reshape(-1, 1)
        A = A * env
    Q, _ = np.linalg.qr(A)  # n x M, orthonormal columns
    C = corr_matrix(case)
    L = np.linalg.cholesky(C)
    P = L @ Q.T  # M x n, Gram = L Q^T conj(Q) L^H = C
    norms = np.asarray(case["norms"], dtype=np.float64)
    P = P * norms[:, None]
    order = case.get("order")
    if order is not None:
        P = P[np.asarray(order)]
    return P.reshape(M, h, w)


def gram(modes):
    m = np.asarray(modes, dtype=np.complex128).reshape(len(modes), -1)
    return m.conj() @ m.T

"""Builder for the C10 `recon` cases: a tiny ptychography problem (dataset + models + preprocessed
Ptychography object) as a pure function of the JSON-able case description.  Same construction as
vq/gen/c05_build.py (copied so that C10 does not depend on another property's files): the measured data
come from a small numpy simulator and only have to be smooth, positive and to give non-degenerate
gradients.  quantem is imported lazily and only used through its public constructors."""

from __future__ import annotations

import math

import numpy as np


# ------------------------------------------------------------------------------------------------
# numpy data simulator (harness side)
# ------------------------------------------------------------------------------------------------
def sim_probe(R, C, seed, M=1):
    """Corner-centred real-space probe stack (M, R, C): soft aperture with a defocus-like phase, higher
    modes get an extra linear phase (they only need to be linearly independent)."""
    rng = np.random.default_rng(seed)
    ky = np.fft.fftfreq(R)[:, None]
    kx = np.fft.fftfreq(C)[None, :]
    k2 = ky**2 + kx**2
    rad = 0.22 + 0.1 * rng.random()
    ap = 1.0 / (1.0 + np.exp((np.sqrt(k2) - rad) / 0.03))
    chi = (8.0 + 16.0 * rng.random()) * k2
    modes = []
    for m in range(M):
        ph = chi + 2 * np.pi * m * (0.37 * ky * R / max(R, 1) + 0.21 * kx) * 2.0
        modes.append(np.fft.ifft2(ap * np.exp(-1j * ph)) * (0.6**m))
    p = np.stack(modes)
    return p / np.sqrt(np.sum(np.abs(p[0]) ** 2))


def sim_data(geom, seed):
    """(gr, gc, R, C) float32 diffraction intensities, DC at the detector centre."""
    R, C = geom["R"], geom["C"]
    gr, gc = geom["gpts"]
    sr, sc = geom["step_px"]
    rng = np.random.default_rng(seed)
    H = int(math.ceil((gr - 1) * sr)) + R + 2
    W = int(math.ceil((gc - 1) * sc)) + C + 2
    # smooth random phase object: low-pass filtered noise, about +-0.6 rad
    noise = rng.standard_normal((H, W))
    fy = np.fft.fftfreq(H)[:, None]
    fx = np.fft.fftfreq(W)[None, :]
    lp = np.exp(-(fy**2 + fx**2) / (2 * 0.15**2))
    ph = np.real(np.fft.ifft2(np.fft.fft2(noise) * lp))
    ph = 0.6 * ph / max(np.abs(ph).max(), 1e-12)
    obj = np.exp(1j * ph)
    probe = np.fft.fftshift(sim_probe(R, C, seed + 1)[0])  # centred in the window
    out = np.empty((gr, gc, R, C), dtype=np.float64)
    for i in range(gr):
        for j in range(gc):
            r0 = int(round(i * sr)) + 1
            c0 = int(round(j * sc)) + 1
            exit_wave = probe * obj[r0 : r0 + R, c0 : c0 + C]
            out[i, j] = np.abs(np.fft.fftshift(np.fft.fft2(exit_wave, norm="ortho"))) ** 2
    out = out * float(geom.get("counts", 100.0)) + 1e-3 * float(geom.get("counts", 100.0)) / (R * C)
    return out.astype(np.float32)


def initial_object(case, shape, seed):
    """Small random starting object so that the object actually moves under positivity / clamping."""
    rng = np.random.default_rng(seed + 17)
    t = case["obj_type"]
    if t == "potential":
        return rng.uniform(0.0, 0.2, shape)
    if t == "pure_phase":
        return np.exp(1j * rng.uniform(-0.2, 0.2, shape))
    return rng.uniform(0.7, 0.95, shape) * np.exp(1j * rng.uniform(-0.2, 0.2, shape))


# ------------------------------------------------------------------------------------------------
# public-API construction
# ------------------------------------------------------------------------------------------------
def build(case):
    """Dataset4dstem -> PtychographyDatasetRaster.preprocess -> models -> Ptychography.preprocess.
    Everything is seeded with case['seed']; returns a preprocessed Ptychography object on the cpu."""
    from quantem.core.datastructures.dataset4dstem import Dataset4dstem
    from quantem.diffractive_imaging.dataset_models import PtychographyDatasetRaster
    from quantem.diffractive_imaging.detector_models import DetectorPixelated
    from quantem.diffractive_imaging.object_models import ObjectPixelated
    from quantem.diffractive_imaging.probe_models import ProbePixelated
    from quantem.diffractive_imaging.ptychography import Ptychography

    g = case["geom"]
    R, C = g["R"], g["C"]
    seed = int(case["seed"])
    samp = np.array(g["sampling"], dtype=np.float64)
    step = np.array(g["step_px"], dtype=np.float64) * samp
    rs = 1.0 / (samp * np.array([R, C]))
    arr = sim_data(g, seed)
    d4 = Dataset4dstem.from_array(array=arr, sampling=(step[0], step[1], rs[0], rs[1]), units=("A", "A", "A^-1", "A^-1"))
    pdset = PtychographyDatasetRaster.from_dataset4dstem(d4, verbose=0)
    pdset.preprocess(
        com_fit_function="constant",
        plot_rotation=False,
        plot_com=False,
        probe_energy=g["energy"],
        force_com_rotation=0,
        force_com_transpose=False,
    )
    M, S = int(case["M"]), int(case["S"])
    thick = case.get("thick") if S > 1 else None
    t = case["obj_type"]
    pm = ProbePixelated.from_array(probe_array=sim_probe(R, C, seed + 1, M), probe_params={"energy": g["energy"]}, rng=seed)

    def mk(om):
        pt = Ptychography.from_models(dset=pdset, obj_model=om, probe_model=pm, detector_model=DetectorPixelated(), rng=seed, verbose=0)
        pt.preprocess(obj_padding_px=tuple(g["pad"]), plot_rotation=False, plot_com=False)
        return pt

    init = case.get("obj_init", "array")
    if init == "uniform":
        return mk(ObjectPixelated.from_uniform(num_slices=S, slice_thicknesses=thick, obj_type=t, rng=seed))
    if init == "random":
        return mk(ObjectPixelated.from_random(num_slices=S, slice_thicknesses=thick, obj_type=t, rng=seed))
    # "array": the full object shape is only known once a Ptychography object exists
    pt0 = mk(ObjectPixelated.from_uniform(num_slices=S, slice_thicknesses=thick, obj_type=t, rng=seed))
    shp = tuple(int(v) for v in pt0.obj_shape_full)
    pt0.obj_model = ObjectPixelated.from_array(initial_object(case, shp, seed), slice_thicknesses=thick, obj_type=t, rng=seed)
    pt0.preprocess(obj_padding_px=tuple(g["pad"]), plot_rotation=False, plot_com=False)
    return pt0

"""Shared Hypothesis strategies for arrays.  Arrays travel through cases as JSON-able dicts
{"dtype": str, "shape": [..], "data": flat list} so a case is its own replay file."""

from __future__ import annotations

import numpy as np
from hypothesis import strategies as st

INT_DTYPES = ["int8", "uint8", "int16", "uint16", "int32", "uint32", "int64", "uint64"]


@st.composite
def shapes(draw, min_dims=1, max_dims=3, min_side=1, max_side=6, min_size=1, max_size=64):
    nd = draw(st.integers(min_dims, max_dims))
    for _ in range(20):
        shp = [draw(st.integers(min_side, max_side)) for _ in range(nd)]
        size = int(np.prod(shp))
        if min_size <= size <= max_size:
            return shp
        # shrink the largest side / grow the smallest deterministically instead of rejecting
        while int(np.prod(shp)) > max_size:
            i = int(np.argmax(shp))
            shp[i] = max(min_side, shp[i] - 1)
            if all(s == min_side for s in shp):
                break
        while int(np.prod(shp)) < min_size:
            i = int(np.argmin(shp))
            shp[i] = min(max_side, shp[i] + 1)
            if all(s == max_side for s in shp):
                break
        if min_size <= int(np.prod(shp)) <= max_size:
            return shp
    return [max(min_side, min(max_side, min_size))] + [min_side] * (nd - 1)


def int_elements(dtype, lo=None, hi=None):
    info = np.iinfo(dtype)
    lo = info.min if lo is None else max(info.min, lo)
    hi = info.max if hi is None else min(info.max, hi)
    return st.one_of(
        st.integers(lo, hi),
        st.sampled_from([v for v in (lo, hi, 0, 1, -1, lo + 1, hi - 1) if lo <= v <= hi]),
        st.integers(max(lo, -5), min(hi, 5)),
    )


def float_elements(width=64, max_mag=1e6, allow_nan=False, allow_inf=False):
    if width == 32:
        max_mag = float(np.float32(max_mag))
    elif width == 16:
        max_mag = float(np.float16(max_mag))
    base = st.floats(
        min_value=-max_mag, max_value=max_mag, allow_nan=False, allow_infinity=False, width=width
    )
    opts = [base, st.integers(-4, 4).map(float)]
    if allow_nan:
        opts.append(st.just(float("nan")))
    if allow_inf:
        opts.append(st.sampled_from([float("inf"), float("-inf")]))
    return st.one_of(*opts)


def nd(dtype, shape, flat):
    return {"dtype": str(dtype), "shape": list(shape), "data": list(flat)}


def to_np(d):
    dt = np.dtype(d["dtype"])
    if dt.kind == "c":
        flat = [complex(a, b) for a, b in d["data"]]
    else:
        flat = d["data"]
    return np.array(flat, dtype=dt).reshape(d["shape"])


def from_np(a):
    a = np.asarray(a)
    if a.dtype.kind == "c":
        flat = [[float(z.real), float(z.imag)] for z in a.ravel()]
    else:
        flat = a.ravel().tolist()
    return {"dtype": str(a.dtype), "shape": list(a.shape), "data": flat}


@st.composite
def seeded_array(draw, shape, dtype="float64", kind="normal"):
    """An array that is a pure function of a drawn integer seed (the seed is the shrinkable value).
    Returns (seed, array)."""
    s = draw(st.integers(0, 2**31 - 1))
    return s, make_seeded(s, shape, dtype, kind)


def make_seeded(seed, shape, dtype="float64", kind="normal"):
    rng = np.random.default_rng(seed)
    dt = np.dtype(dtype)
    if dt.kind == "c":
        a = rng.standard_normal(shape) + 1j * rng.standard_normal(shape)
    elif dt.kind == "f":
        a = rng.standard_normal(shape) if kind == "normal" else rng.random(shape)
    elif dt.kind in "iu":
        info = np.iinfo(dt)
        a = rng.integers(max(info.min, -1000), min(info.max, 1000), size=shape, endpoint=True)
    elif dt.kind == "b":
        a = rng.random(shape) > 0.5
    else:
        raise ValueError(dtype)
    return np.asarray(a).astype(dt)

"""Independent reference implementations for Dataset.bin / fourier_resample / pad / crop /
__getitem__ (used by C03 and C06).  Pure numpy / Python, nothing imported from quantem."""

from __future__ import annotations

import itertools

import numpy as np


# ------------------------------------------------------------------------------------------------
# binning: explicit block loop, exact for integers (Python ints), float64/complex128 otherwise
# ------------------------------------------------------------------------------------------------
def bin_ref(arr, factors_by_axis, reducer="sum"):
    """factors_by_axis: {axis: factor}.  Trailing remainder dropped.  Returns an object array of
    exact Python numbers for integer/bool input, else a complex128/float64 array."""
    arr = np.asarray(arr)
    exact = arr.dtype.kind in "iub"
    out_shape = []
    for ax, n in enumerate(arr.shape):
        f = factors_by_axis.get(ax, 1)
        out_shape.append(n // f if ax in factors_by_axis else n)
    out = np.empty(out_shape, dtype=object)
    src = arr.astype(object) if exact else arr.astype(np.complex128 if arr.dtype.kind == "c" else np.float64)
    vol = 1
    for f in factors_by_axis.values():
        vol *= f
    for idx in itertools.product(*[range(n) for n in out_shape]):
        ranges = []
        for ax, j in enumerate(idx):
            if ax in factors_by_axis:
                f = factors_by_axis[ax]
                ranges.append(range(j * f, (j + 1) * f))
            else:
                ranges.append(range(j, j + 1))
        total = 0
        for sub in itertools.product(*ranges):
            v = src[sub]
            total = total + (int(v) if exact else v)
        out[idx] = total
    if reducer == "mean":
        res = np.empty(out_shape, dtype=np.complex128 if arr.dtype.kind == "c" else np.float64)
        for idx in itertools.product(*[range(n) for n in out_shape]):
            res[idx] = out[idx] / vol
        return res
    if exact:
        return out
    return out.astype(np.complex128 if arr.dtype.kind == "c" else np.float64)


def bin_meta_ref(origin, sampling, factors_by_axis):
    """sampling x f; origin -> mean coordinate of the first block."""
    origin = [float(v) for v in origin]
    sampling = [float(v) for v in sampling]
    for ax, f in factors_by_axis.items():
        coords = [origin[ax] + i * sampling[ax] for i in range(f)]
        origin[ax] = sum(coords) / f
        sampling[ax] = sampling[ax] * f
    return origin, sampling


# ------------------------------------------------------------------------------------------------
# Fourier resampling: separable matrix DFT in complex128
# ------------------------------------------------------------------------------------------------
def signed_freqs(n):
    """frequencies present on an n-point grid in fftshift order: -(n//2) .. n-n//2-1"""
    return list(range(-(n // 2), n - n // 2))


def resample_matrix(n_in, n_out):
    """M (n_out x n_in): centred crop / zero-pad of the fftshifted spectrum, 1/N_in scaling
    (mean preserving), DC aligned."""
    keep = sorted(set(signed_freqs(n_in)) & set(signed_freqs(n_out)))
    k = np.array(keep, dtype=np.float64)
    n = np.arange(n_in, dtype=np.float64)
    m = np.arange(n_out, dtype=np.float64)
    fwd = np.exp(-2j * np.pi * np.outer(k, n) / n_in)  # X[k] = sum_n x[n] e^{-2 pi i k n / N_in}
    inv = np.exp(2j * np.pi * np.outer(m, k) / n_out)
    return (inv @ fwd) / n_in


def resample_ref(arr, out_len_by_axis):
    arr = np.asarray(arr)
    out = arr.astype(np.complex128)
    for ax, n_out in out_len_by_axis.items():
        M = resample_matrix(arr.shape[ax], n_out)
        out = np.moveaxis(np.tensordot(M, out, axes=([1], [ax])), 0, ax)
    if arr.dtype.kind != "c":
        out = out.real
    return out


def resample_meta_ref(origin, sampling, shape, out_len_by_axis):
    origin = [float(v) for v in origin]
    sampling = [float(v) for v in sampling]
    for ax, n_out in out_len_by_axis.items():
        n_in = shape[ax]
        centre = origin[ax] + (n_in - 1) / 2.0 * sampling[ax]
        extent = n_in * sampling[ax]
        sampling[ax] = extent / n_out
        origin[ax] = centre - (n_out - 1) / 2.0 * sampling[ax]
    return origin, sampling


def bandlimited(shape, axes, limits, seed, complex_valued=False):
    """A signal whose spectrum along each axis in `axes` only contains |k| < limits[axis]
    (strictly below every Nyquist involved): Fourier resampling is then unambiguous."""
    rng = np.random.default_rng(seed)
    x = rng.standard_normal(shape) + (1j * rng.standard_normal(shape) if complex_valued else 0)
    F = np.fft.fftn(x, axes=axes)
    for ax in axes:
        n = shape[ax]
        k = np.fft.fftfreq(n, d=1.0 / n)  # signed integer frequencies
        keep = np.abs(k) < limits[ax]
        sl = [None] * len(shape)
        sl[ax] = slice(None)
        F = F * keep.reshape([-1 if i == ax else 1 for i in range(len(shape))])
    y = np.fft.ifftn(F, axes=axes)
    return y if complex_valued else y.real


# ------------------------------------------------------------------------------------------------
# pad widths for output_shape; crop
# ------------------------------------------------------------------------------------------------
def pad_widths_for(shape, output_shape):
    out = []
    for n, m in zip(shape, output_shape):
        d = m - n
        out.append((max(0, d // 2), max(0, d - d // 2)))  # floor / ceil
    return out

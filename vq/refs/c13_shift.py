"""Reference pieces for C13 (image registration): seeded test images with a controlled correlation
peak, an independent float64 Fourier translation, and the gradient bound used to turn a shift
tolerance into an image tolerance.  Nothing here imports quantem."""

from __future__ import annotations

import math

import numpy as np


def signed_freq(n):
    """Signed integer frequency indices in numpy FFT order; for even n the Nyquist index is -n/2."""
    k = np.arange(n)
    return np.where(k < (n + 1) // 2, k, k - n).astype(np.float64)


def band_mask(h, w, cut):
    """Keep |k| <= K per axis with K = clamp(floor(cut * n/2), 1, ceil(n/2) - 1): at least the
    fundamental is present on both axes and the Nyquist line (even n) is always removed, so the
    image is strictly band-limited and its Fourier translation is unambiguous."""
    ky = np.abs(signed_freq(h))
    kx = np.abs(signed_freq(w))
    Ky = min(max(1, int(math.floor(cut[0] * h / 2.0))), (h + 1) // 2 - 1)
    Kx = min(max(1, int(math.floor(cut[1] * w / 2.0))), (w + 1) // 2 - 1)
    return (ky[:, None] <= Ky) & (kx[None, :] <= Kx), (Ky, Kx)


def make_image(spec, h, w):
    """Deterministic float64 image of shape (h, w) from a JSON-able spec.

    noise : white Gaussian noise plus an offset (not band-limited; integer-shift clause only)
    field : white noise low-passed to the band `cut` (random amplitudes and phases)
    sym   : random-phase field whose power spectrum is a mirror-symmetric Gaussian envelope times
            the band mask; its autocorrelation is the (deterministic) transform of that envelope
    blob  : 1-3 periodic Gaussian blobs (sigma >= 1.2 px) with random centres, low-passed to `cut`
    """
    rng = np.random.default_rng(int(spec["seed"]))
    t = spec["type"]
    if t == "noise":
        return rng.standard_normal((h, w)) + float(spec.get("offset", 0.0))
    mask, _K = band_mask(h, w, spec["cut"])
    if t == "field":
        a = rng.standard_normal((h, w))
    elif t == "sym":
        ph = np.fft.fft2(rng.standard_normal((h, w)))
        ph = ph / np.maximum(np.abs(ph), 1e-300)
        ky = signed_freq(h)[:, None] / h
        kx = signed_freq(w)[None, :] / w
        sy, sx = spec["width"]  # real-space correlation lengths in px
        env = np.exp(-0.5 * ((2 * np.pi * ky * sy) ** 2 + (2 * np.pi * kx * sx) ** 2))
        a = np.real(np.fft.ifft2(ph * env))
    elif t == "blob":
        a = np.zeros((h, w))
        yy = np.arange(h)[:, None]
        xx = np.arange(w)[None, :]
        for _ in range(int(spec["n"])):
            cy, cx = rng.uniform(0, h), rng.uniform(0, w)
            sg = rng.uniform(1.2, 3.0)
            amp = rng.uniform(0.5, 1.5)
            dy = (yy - cy + h / 2.0) % h - h / 2.0
            dx = (xx - cx + w / 2.0) % w - w / 2.0
            a = a + amp * np.exp(-0.5 * (dy**2 + dx**2) / sg**2)
    else:
        raise ValueError(t)
    F = np.fft.fft2(a) * mask
    F[0, 0] = 0.0
    a = np.real(np.fft.ifft2(F))
    a = a / max(float(np.max(np.abs(a))), 1e-300)
    return a + float(spec.get("offset", 0.0))


def fourier_shift(img, s):
    """T_s(img)[x] = img(x - s) on the periodic cell, by trigonometric interpolation in float64.
    For even sizes the Nyquist line is multiplied by cos(pi*s) (the symmetric, real-preserving
    choice); integer shifts are done with np.roll and are therefore exact."""
    img = np.asarray(img, dtype=np.float64)
    h, w = img.shape
    sy, sx = float(s[0]), float(s[1])
    if sy == int(sy) and sx == int(sx):
        return np.roll(img, (int(sy), int(sx)), axis=(0, 1))
    fy = signed_freq(h)
    fx = signed_freq(w)
    ry = np.exp(-2j * np.pi * fy * sy / h)
    rx = np.exp(-2j * np.pi * fx * sx / w)
    if h % 2 == 0:
        ry[h // 2] = math.cos(math.pi * sy)
    if w % 2 == 0:
        rx[w // 2] = math.cos(math.pi * sx)
    return np.real(np.fft.ifft2(np.fft.fft2(img) * ry[:, None] * rx[None, :]))


def grad_bounds(img):
    """(Gy, Gx): upper bounds of max|d img/dy|, max|d img/dx| of the trigonometric interpolant,
    from the triangle inequality over Fourier coefficients."""
    h, w = img.shape
    F = np.abs(np.fft.fft2(img)) / (h * w)
    gy = float(np.sum(F * np.abs(2 * np.pi * signed_freq(h) / h)[:, None]))
    gx = float(np.sum(F * np.abs(2 * np.pi * signed_freq(w) / w)[None, :]))
    return gy, gx


def wrap_centered(v, n):
    """v wrapped to [-n/2, n/2)."""
    return (v + n / 2.0) % n - n / 2.0


def circ_err(a, b, n):
    """|a - b| on the circle of length n."""
    return abs(wrap_centered(a - b, n))


def peak_conditioning(ref, s, tie=1e-4, im=None):
    """Domain test for the sub-pixel clause, computed from the inputs alone (float64).

    C(k) = sum_x ref(x + k) T_s(ref)(x) sampled on the pixel grid is the correlation every
    estimator starts from.  Two-stage registration (pixel peak, 3-point parabola, local upsampling
    around that first estimate) presupposes that the parabola through the pixel-grid maximum lands
    near the true peak; otherwise the true peak is not inside the refinement window.  Returns the
    larger per-axis distance between the textbook 3-point estimate and the true peak -s, maximised
    over every pixel whose correlation is within `tie` (relative to max - mean) of the maximum, so
    that the answer does not depend on how an implementation breaks near-ties."""
    h, w = ref.shape
    if im is None:  # else: the (e.g. quantised) pair actually handed to the estimators
        im = fourier_shift(ref, s)
    C = np.real(np.fft.ifft2(np.fft.fft2(ref) * np.conj(np.fft.fft2(im))))
    d = (-float(s[0]), -float(s[1]))
    cmax = float(C.max())
    thr = cmax - tie * max(cmax - float(C.mean()), 1e-300)

    def par(v):
        den = 4 * v[1] - 2 * v[2] - 2 * v[0]
        return (v[2] - v[0]) / den if den != 0 else 0.0

    worst = 0.0
    for ky, kx in zip(*np.nonzero(C >= thr)):
        vy = [C[(ky + j) % h, kx] for j in (-1, 0, 1)]
        vx = [C[ky, (kx + j) % w] for j in (-1, 0, 1)]
        worst = max(worst, circ_err(ky + par(vy), d[0], h), circ_err(kx + par(vx), d[1], w))
    return worst


def skew_bound(ref):
    """How far (in units of the sampling step) a per-axis refinement of the correlation peak can
    be off because the peak is skewed with respect to the axes.

    Near its maximum the correlation of `ref` with a translate of itself is C0 - u^T H u / 2 with
    H the second-moment matrix of the power spectrum.  The sample maximum g of a grid with step 1
    satisfies q(g - d) <= q(nearest - d) <= (Hyy + Hxx + 2|Hxy|)/4, hence |g_y - d_y|^2 <= that /
    (Hyy - Hxy^2/Hxx) (Schur complement); the maximum along the grid line through g is displaced
    from d_x by (Hxy/Hxx)(g_y - d_y).  Returns max over the two axes of that displacement bound
    (0 for mirror-symmetric spectra)."""
    h, w = ref.shape
    P = np.abs(np.fft.fft2(ref)) ** 2
    P[0, 0] = 0.0
    ky = (2 * np.pi * signed_freq(h) / h)[:, None]
    kx = (2 * np.pi * signed_freq(w) / w)[None, :]
    Hyy = float(np.sum(P * ky * ky))
    Hxx = float(np.sum(P * kx * kx))
    Hxy = float(np.sum(P * ky * kx))
    if Hyy <= 0 or Hxx <= 0:
        return float("inf")
    det = Hyy * Hxx - Hxy * Hxy
    if det <= 1e-12 * Hyy * Hxx:
        return float("inf")
    q = 0.25 * (Hyy + Hxx + 2 * abs(Hxy))
    ex = abs(Hxy) / Hxx * math.sqrt(q / (det / Hxx))
    ey = abs(Hxy) / Hyy * math.sqrt(q / (det / Hyy))
    return max(ex, ey)


# integer input dtypes: counts-like data.  amplitude A and pedestal P: q = round(A * img + P) with
# max|img| = 1.  High dynamic range wherever the dtype allows, so that quantisation noise is small
# against the asserted bounds; its actual effect on the registration is computed by `true_peak`.
INT_DTYPES = {
    "uint8": (100.0, 128.0),
    "uint16": (20000.0, 30000.0),
    "int16": (10000.0, 0.0),
    "int32": (1.0e6, 0.0),
    "int64": (1.0e6, 0.0),
}


def quantise(img, in_dtype):
    """Integer-valued image of dtype `in_dtype` from a float image with max|img| <= 1 (+ offset 0)."""
    A, P = INT_DTYPES[in_dtype]
    q = np.rint(A * np.asarray(img, dtype=np.float64) + P)
    info = np.iinfo(in_dtype)
    if q.min() < info.min or q.max() > info.max:
        raise ValueError("quantised image leaves the range of %s" % in_dtype)
    return q.astype(in_dtype)


def true_peak(ref, im, start, iters=8):
    """Location of the maximum of the (trigonometrically interpolated) circular cross-correlation
    C(d) = sum_x ref(x + d) im(x) nearest to `start`, by Newton iteration in float64 on the exact
    Fourier series (Nyquist lines dropped).  This is the quantity every estimator approximates;
    for quantised images it differs from the applied translation by the effect of the rounding
    noise, which is what the harness needs to know.  Returns (dy, dx) or None if Newton does not
    settle to 1e-10 px."""
    ref = np.asarray(ref, dtype=np.float64)
    im = np.asarray(im, dtype=np.float64)
    h, w = ref.shape
    Ch = np.fft.fft2(ref) * np.conj(np.fft.fft2(im)) / (h * w)
    fy, fx = signed_freq(h), signed_freq(w)
    if h % 2 == 0:
        Ch[h // 2, :] = 0.0
    if w % 2 == 0:
        Ch[:, w // 2] = 0.0
    ay = (2j * np.pi * fy / h)[:, None]
    ax = (2j * np.pi * fx / w)[None, :]
    y, x = float(start[0]), float(start[1])
    for _ in range(iters):
        E = Ch * np.exp(ay * y) * np.exp(ax * x)
        gy, gx = np.real(np.sum(E * ay)), np.real(np.sum(E * ax))
        hyy, hxx, hxy = np.real(np.sum(E * ay * ay)), np.real(np.sum(E * ax * ax)), np.real(np.sum(E * ay * ax))
        det = hyy * hxx - hxy * hxy
        if not (hyy < 0 and det > 0):
            return None
        sy = (hxx * gy - hxy * gx) / det
        sx = (hyy * gx - hxy * gy) / det
        y, x = y - sy, x - sx
        if max(abs(sy), abs(sx)) < 1e-10:
            return (y, x)
    return None


def drop_nyquist(d):
    """Remove the Nyquist lines (even sizes) from a real-space difference image.  A translation by
    a non-integer amount is not uniquely defined on those lines (cos(pi s_y) cos(pi s_x) versus
    cos(pi (s_y + s_x)) at the corner are both real-preserving choices); band-limited test images
    carry nothing there, quantised ones carry rounding noise."""
    h, w = d.shape
    if h % 2 and w % 2:
        return d
    F = np.fft.fft2(d)
    if h % 2 == 0:
        F[h // 2, :] = 0.0
    if w % 2 == 0:
        F[:, w // 2] = 0.0
    return np.real(np.fft.ifft2(F))

"""Independent float64 reference for the aberration phase surface (C12).  Imports nothing from quantem.

Convention (Krivanek polar notation, the one the alias table 'defocus/astigmatism/coma/Cs/C5' names):

    chi(alpha, phi) = (2 pi / lambda) * sum_{n,m} C_nm / (n+1) * alpha^(n+1) * cos(m (phi - phi_nm))

with n = 1..5, m in {n+1, n-1, ...} >= 0.  The Cartesian coefficients are C_nm_a = C_nm cos(m phi_nm),
C_nm_b = C_nm sin(m phi_nm), so that each azimuthal term is
    alpha^(n+1) (C_a cos m phi + C_b sin m phi) = alpha^(n+1-m) * Re[(C_a - i C_b) (x + i y)^m].
The right-hand form is what this file evaluates: a polynomial in (x, y) = (alpha_x, alpha_y), with no
trigonometric call on the evaluation points, hence a different expression tree from the code under test.

The reference is used for (a) the per-point magnitude scale that tolerances are relative to, and (b) naming
the deviating representation in violation messages.  The *assertions* of the check are the
cross-representation identities the property states.
"""

from __future__ import annotations

import math

import numpy as np

NM = [(n, m) for n in range(1, 6) for m in range(n + 1, -1, -2)]
# -> (1,2),(1,0),(2,3),(2,1),(3,4),(3,2),(3,0),(4,5),(4,3),(4,1),(5,6),(5,4),(5,2),(5,0)

POLAR_SYMBOLS = []
for _n, _m in sorted(NM, key=lambda t: (t[0], t[1])):
    POLAR_SYMBOLS.append("C%d%d" % (_n, _m))
    if _m:
        POLAR_SYMBOLS.append("phi%d%d" % (_n, _m))
assert len(POLAR_SYMBOLS) == 25

CART_LABELS = []
for _n, _m in sorted(NM, key=lambda t: (t[0], t[1])):
    if _m == 0:
        CART_LABELS.append("C%d%d" % (_n, _m))
    else:
        CART_LABELS.append("C%d%d_a" % (_n, _m))
        CART_LABELS.append("C%d%d_b" % (_n, _m))
assert len(CART_LABELS) == 25

ALIASES = {
    "defocus": ("C10", -1.0),
    "astigmatism": ("C12", 1.0),
    "astigmatism_angle": ("phi12", 1.0),
    "coma": ("C21", 1.0),
    "coma_angle": ("phi21", 1.0),
    "Cs": ("C30", 1.0),
    "C5": ("C50", 1.0),
}


def canonical(items):
    """Expected canonical polar dict for an ordered list of (key, value) pairs (aliases allowed).
    Raises KeyError for a key that is neither a polar symbol nor an alias."""
    out = {}
    for k, v in items:
        if k in ALIASES:
            sym, sign = ALIASES[k]
            out[sym] = sign * float(v)
        elif k in POLAR_SYMBOLS:
            out[k] = float(v)
        else:
            raise KeyError(k)
    return out


def parse_label(label):
    base, _, kind = label.partition("_")
    return int(base[1]), int(base[2]), (kind or None)


def polar_to_cart(polar):
    """Own conversion (float64 python): dict over CART_LABELS."""
    cart = {}
    for n, m in NM:
        C = float(polar.get("C%d%d" % (n, m), 0.0))
        if m == 0:
            cart["C%d%d" % (n, m)] = C
        else:
            p = float(polar.get("phi%d%d" % (n, m), 0.0))
            cart["C%d%d_a" % (n, m)] = C * math.cos(m * p)
            cart["C%d%d_b" % (n, m)] = C * math.sin(m * p)
    return cart


def basis_xy(ax, ay, wavelength, label):
    """One Cartesian basis function on points (ax, ay) [rad], polynomial form."""
    n, m, kind = parse_label(label)
    ax = np.asarray(ax, dtype=np.float64)
    ay = np.asarray(ay, dtype=np.float64)
    r2 = ax * ax + ay * ay
    pref = 2.0 * math.pi / wavelength / (n + 1)
    # alpha^(n+1-m): n+1-m is even and >= 0
    rad = r2 ** ((n + 1 - m) // 2)
    if m == 0:
        return pref * rad
    z = (ax + 1j * ay) ** m
    return pref * rad * (z.real if kind == "a" else z.imag)


def surface_cart(ax, ay, wavelength, cart):
    ax = np.asarray(ax, dtype=np.float64)
    out = np.zeros(ax.shape, dtype=np.float64)
    for label, v in cart.items():
        if v != 0.0:
            out = out + float(v) * basis_xy(ax, ay, wavelength, label)
    return out


def surface_polar(ax, ay, wavelength, polar):
    return surface_cart(ax, ay, wavelength, polar_to_cart(polar))


def scale_polar(alpha, wavelength, polar):
    """sum of the absolute magnitudes of the terms of chi at radius alpha: the natural unit for rounding
    error (a term C/(n+1) alpha^(n+1) cos(..) is computed to a few ulp of its own amplitude)."""
    alpha = np.asarray(alpha, dtype=np.float64)
    out = np.zeros(alpha.shape, dtype=np.float64)
    for n, m in NM:
        C = abs(float(polar.get("C%d%d" % (n, m), 0.0)))
        if C:
            out = out + C / (n + 1) * alpha ** (n + 1)
    return 2.0 * math.pi / wavelength * out


def scale_cart(alpha, wavelength, cart):
    alpha = np.asarray(alpha, dtype=np.float64)
    out = np.zeros(alpha.shape, dtype=np.float64)
    for label, v in cart.items():
        n, m, kind = parse_label(label)
        if v:
            out = out + abs(float(v)) / (n + 1) * alpha ** (n + 1)
    return 2.0 * math.pi / wavelength * out


def grad_scale_polar(alpha, polar):
    """scale of lambda * |grad chi| / (2 pi) ... times 2 pi: sum_n,m |C_nm| alpha^n * (1 + m/(n+1))."""
    alpha = np.asarray(alpha, dtype=np.float64)
    out = np.zeros(alpha.shape, dtype=np.float64)
    for n, m in NM:
        C = abs(float(polar.get("C%d%d" % (n, m), 0.0)))
        if C:
            out = out + C * alpha**n * (1.0 + m / (n + 1.0))
    return 2.0 * math.pi * out


def points(seed, n):
    """Deterministic evaluation points (alpha_x, alpha_y) [rad]: generic points with log-uniform radius in
    [1e-5, 0.2] and uniform azimuth, followed by special points: on the four half-axes, on the diagonals,
    very close to the origin.  The origin itself is handled separately by the callers."""
    rng = np.random.default_rng(int(seed))
    r = 10.0 ** rng.uniform(-5.0, math.log10(0.2), size=n)
    p = rng.uniform(-math.pi, math.pi, size=n)
    ax = r * np.cos(p)
    ay = r * np.sin(p)
    a = float(10.0 ** rng.uniform(-3.0, -1.0))
    sx = [a, -a, 0.0, 0.0, a, -a, 1e-9, 0.0, -3e-12]
    sy = [0.0, 0.0, a, -a, a, a, 0.0, -1e-9, 2e-12]
    return np.concatenate([ax, sx]), np.concatenate([ay, sy])


# ---------------------------------------------------------------------------------------------------
# quadratic shift model (for the fit round trip): shifts = A @ alpha,  A from C10, C12, phi12
# ---------------------------------------------------------------------------------------------------
def abc(C10, C12, phi12):
    """symmetric matrix entries (a, b, c) of the quadratic aberration: [[a, b], [b, c]]."""
    ca = C12 * math.cos(2 * phi12)
    cb = C12 * math.sin(2 * phi12)
    return C10 + ca, cb, C10 - ca

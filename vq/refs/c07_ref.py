"""C07 reference side: scikit-image wrappers in the torch layout, pure case -> array builders.

Nothing here imports quantem.  All references run in float64 on the *exact* float32 values that
are handed to the torch code, so the only differences left are float32 arithmetic."""

from __future__ import annotations

import math

import numpy as np

FILTERS = ["ramp", "shepp-logan", "cosine", "hamming", "hann", None]
# dtypes the pinned tree accepts and handles correctly (probed): theta may be any of these tensors
# for both transforms (float16 is accepted but computes in half precision: excluded); images must
# be float32 (grid_sample rejects everything else); sinograms may be float32/float64 or integers.
INT_THETA_DTYPES = ["int64", "int32", "uint8"]
THETA_DTYPES = ["float32", "float64"] + INT_THETA_DTYPES
INT_SINO_DTYPES = ["int64", "int32", "int16", "uint8"]
SINO_DTYPES = ["float32", "float64"] + INT_SINO_DTYPES
EPS32 = float(np.finfo(np.float32).eps)


# ------------------------------------------------------------------------------------------------
# geometry
# ------------------------------------------------------------------------------------------------
def disc(N):
    """scikit-image's reconstruction circle: centre N//2, radius N//2, boundary included
    (radon() calls 'outside' the pixels with dist > radius**2).  Integer arithmetic: exact."""
    c = N // 2
    y, x = np.ogrid[:N, :N]
    return ((x - c) ** 2 + (y - c) ** 2) <= (N // 2) ** 2


def disc_pixels(N):
    """Row-major list of the (row, col) pixels inside the disc."""
    rr, cc = np.nonzero(disc(N))
    return list(zip(rr.tolist(), cc.tolist()))


def expand_angles(angles):
    """An angle set is either an explicit list or, for the large problems, a compact description
    {"n": A, "mode": "even" | "random", "offset": x, "seed": s}: A angles k*180/A + x (x < 180/A),
    or A sorted uniform draws from [0, 180)."""
    if isinstance(angles, dict):
        A = int(angles["n"])
        if angles["mode"] == "even":
            return np.arange(A, dtype=np.float64) * (180.0 / A) + float(angles.get("offset", 0.0))
        return np.sort(np.random.default_rng(int(angles["seed"])).uniform(0.0, 180.0, A))
    return np.asarray(angles, dtype=np.float64)


def theta_values(angles, dtype):
    """The angle values as the torch side will see them, in float64 (exact)."""
    a = expand_angles(angles)
    if dtype == "float32":
        a = a.astype(np.float32).astype(np.float64)
    elif dtype in INT_THETA_DTYPES:
        a = np.trunc(a)  # integer tensors hold whole degrees (the generator only draws whole ones)
    return a


# ------------------------------------------------------------------------------------------------
# case -> arrays (pure functions of the JSON case)
# ------------------------------------------------------------------------------------------------
def build_image(spec, N, masked=True):
    """float32 (N, N) image, zero outside the disc (masked=False: the same image before masking)."""
    t = spec["type"]
    img = np.zeros((N, N), dtype=np.float64)
    if t == "impulse":
        for r, c, v in spec["points"]:
            img[int(r) % N, int(c) % N] += float(v)
    else:
        rng = np.random.default_rng(int(spec["seed"]))
        if t == "noise":
            img = rng.standard_normal((N, N))
        elif t == "smooth":
            yy, xx = np.mgrid[:N, :N].astype(np.float64)
            for _ in range(int(rng.integers(1, 4))):
                cy, cx = rng.uniform(0, N - 1, 2)
                s = rng.uniform(N / 10.0 + 0.8, N / 2.5 + 0.8)
                img += rng.uniform(-1, 1) * np.exp(-((yy - cy) ** 2 + (xx - cx) ** 2) / (2 * s * s))
        elif t == "blocks":
            for _ in range(int(rng.integers(1, 5))):
                r0, r1 = np.sort(rng.integers(0, N + 1, 2))
                c0, c1 = np.sort(rng.integers(0, N + 1, 2))
                img[r0 : r1 + 1, c0 : c1 + 1] += rng.choice([-2.0, -1.0, 0.5, 1.0, 3.0])
        else:
            raise ValueError("unknown image type %r" % (t,))
    img = img * float(spec.get("amp", 1.0))
    if masked:
        img = img * disc(N)
    return img.astype(np.float32)


def build_sinogram(spec, A, N, theta64, dtype="float32"):
    """(A, N) sinogram of the requested dtype.  Integer dtypes hold detector counts: the float
    pattern (amplitude ignored) times 16, rounded, shifted by +64 for unsigned types and clipped
    to (-2^15, 2^15) / the dtype's range, so that every value is exact in float32 as well."""
    t = spec["type"]
    if t == "impulse":
        s = np.zeros((A, N), dtype=np.float64)
        for a, p, v in spec["points"]:
            s[int(a) % A, int(p) % N] += float(v)
    elif t == "ones":
        s = np.ones((A, N), dtype=np.float64)
    elif t == "noise":
        s = np.random.default_rng(int(spec["seed"])).standard_normal((A, N))
    elif t == "radon":
        s = ref_radon(build_image(spec["img"], N), theta64)
    else:
        raise ValueError("unknown sinogram type %r" % (t,))
    if dtype in INT_SINO_DTYPES:
        info = np.iinfo(dtype)
        c = np.rint(s * 16.0) + (64 if info.min == 0 else 0)
        return np.clip(c, max(info.min, -(2**15) + 1), min(info.max, 2**15 - 1)).astype(dtype)
    return (s * float(spec.get("amp", 1.0))).astype(dtype)


# ------------------------------------------------------------------------------------------------
# scikit-image references, returned in the torch layout (angles, pixels)
# ------------------------------------------------------------------------------------------------
def ref_radon(img, theta64):
    from skimage.transform import radon

    return np.ascontiguousarray(radon(np.asarray(img, dtype=np.float64), theta=np.asarray(theta64), circle=True).T)


def ref_iradon(sino, theta64, filter_name, circle):
    from skimage.transform import iradon

    return iradon(
        np.ascontiguousarray(np.asarray(sino, dtype=np.float64).T),
        theta=np.asarray(theta64),
        filter_name=filter_name,
        interpolation="linear",
        circle=circle,
        preserve_range=True,
    )


def ref_filter(size, filter_name):
    from skimage.transform.radon_transform import _get_fourier_filter

    return _get_fourier_filter(size, filter_name)[:, 0]


def column_sums(img):
    """theta = 0 projection of the disc-masked image, float64."""
    img = np.asarray(img, dtype=np.float64)
    return (img * disc(img.shape[0])).sum(axis=0)


def unstable_pixels(N, theta64, circle):
    """Pixels of the reconstruction whose detector coordinate t lies within 1e-3 of an end of the
    reference's detector for some angle.  np.interp(left=0, right=0) jumps there, so a float32 and
    a float64 evaluation of t may legitimately land on different sides: not comparable.
    (In circle mode scikit-image first pads the detector to ceil(sqrt(2) N); inside the circle no
    pixel comes near the ends except for N = 4.)"""
    if circle:
        out = N
        D = int(math.ceil(math.sqrt(2) * N))
    else:
        out = int(math.floor(math.sqrt(N**2 / 2.0)))
        D = N
    radius = out // 2
    lo, hi = -(D // 2), D - 1 - D // 2
    xpr, ypr = np.mgrid[:out, :out] - radius
    bad = np.zeros((out, out), dtype=bool)
    for ang in np.deg2rad(np.asarray(theta64, dtype=np.float64)):
        t = ypr * np.cos(ang) - xpr * np.sin(ang)
        bad |= (np.abs(t - lo) < 1e-3) | (np.abs(t - hi) < 1e-3)
    if circle:
        bad &= (xpr**2 + ypr**2) <= radius**2  # outside the circle both sides write exact zeros
    return bad

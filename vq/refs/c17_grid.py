"""Reference pieces for C17 (phase unwrapping), written from the property text, not from quantem:

* the neighbour graph of a (masked, bounded or periodic) pixel grid,
* its connected components (scipy.sparse.csgraph, cross-checked against scipy.ndimage.label),
* deterministic construction of smooth fields and masks from small JSON recipes.

numpy / scipy only.  Nothing here imports quantem or torch."""

from __future__ import annotations

import math

import numpy as np
from scipy import ndimage
from scipy.sparse import coo_matrix
from scipy.sparse.csgraph import connected_components

TWO_PI = 2.0 * math.pi


# ------------------------------------------------------------------------------------------------
# grid graph
# ------------------------------------------------------------------------------------------------
def edge_list(H, W, mask, wrap):
    """4-neighbour pixel pairs (flat indices) with both ends inside `mask` (None = all pixels).
    Periodic pairs (last<->first row / column) are included iff `wrap`.  Self pairs (side of
    length 1 on a periodic grid) are dropped: they constrain nothing."""
    idx = np.arange(H * W).reshape(H, W)
    pairs = []
    if wrap:
        pairs.append((idx.ravel(), np.roll(idx, -1, axis=1).ravel()))
        pairs.append((idx.ravel(), np.roll(idx, -1, axis=0).ravel()))
    else:
        pairs.append((idx[:, :-1].ravel(), idx[:, 1:].ravel()))
        pairs.append((idx[:-1, :].ravel(), idx[1:, :].ravel()))
    a = np.concatenate([p[0] for p in pairs])
    b = np.concatenate([p[1] for p in pairs])
    keep = a != b
    if mask is not None:
        m = np.asarray(mask, dtype=bool).ravel()
        keep &= m[a] & m[b]
    return a[keep], b[keep]


def components(H, W, mask, wrap):
    """labels (H, W) int array: -1 outside the mask, 0..n-1 inside; and n."""
    N = H * W
    m = np.ones(N, dtype=bool) if mask is None else np.asarray(mask, dtype=bool).ravel()
    a, b = edge_list(H, W, mask, wrap)
    g = coo_matrix((np.ones(a.size, dtype=np.int8), (a, b)), shape=(N, N))
    _n, lab = connected_components(g, directed=False)
    lab = np.where(m, lab, -1)
    # relabel 0..n-1 over in-mask pixels
    uniq = np.unique(lab[m])
    remap = {int(u): i for i, u in enumerate(uniq)}
    out = np.full(N, -1, dtype=np.int64)
    for u, i in remap.items():
        out[lab == u] = i
    n = len(uniq)
    if not wrap:
        # self-check of the labelling against scipy.ndimage.label (4-connectivity, bounded grid)
        _lab2, n2 = ndimage.label(m.reshape(H, W))
        if n2 != n:
            raise AssertionError("component oracle disagrees with ndimage.label: %d vs %d" % (n, n2))
    return out.reshape(H, W), n


def has_hole(H, W, mask, wrap):
    """Classification only (not part of the oracle): the complement of the mask (8-connected, the
    usual dual of a 4-connected foreground) has a part that is enclosed by the mask - on a bounded
    grid a complement component that does not touch the border, on a periodic grid more than one
    complement component."""
    if mask is None:
        return False
    comp = ~np.asarray(mask, dtype=bool)
    if not comp.any():
        return False
    s8 = np.ones((3, 3), dtype=bool)
    if not wrap:
        lab, n = ndimage.label(comp, structure=s8)
        border = set(np.unique(np.concatenate([lab[0], lab[-1], lab[:, 0], lab[:, -1]]))) - {0}
        return n > len(border)
    # periodic: label a 3x3 tiling and count classes of the central tile
    t = np.tile(comp, (3, 3))
    lab, _n = ndimage.label(t, structure=s8)
    c = lab[H : 2 * H, W : 2 * W]
    # two central labels are the same periodic component if they meet in any tile copy
    ids = np.unique(c[c > 0])
    parent = {int(i): int(i) for i in ids}

    def find(x):
        while parent[x] != x:
            x = parent[x]
        return x

    for di in range(3):
        for dj in range(3):
            blk = lab[di * H : (di + 1) * H, dj * W : (dj + 1) * W]
            sel = (blk > 0) & (c > 0)
            for u, v in set(zip(blk[sel].tolist(), c[sel].tolist())):
                if u in parent and v in parent:
                    ru, rv = find(u), find(v)
                    if ru != rv:
                        parent[ru] = rv
    return len({find(int(i)) for i in ids}) > 1


# ------------------------------------------------------------------------------------------------
# masks from recipes
# ------------------------------------------------------------------------------------------------
def _shape_mask(H, W, s, periodic):
    yy, xx = np.meshgrid(np.arange(H), np.arange(W), indexing="ij")
    if s[0] == "rect":
        _t, r0, c0, h, w = s
        if periodic:
            rows = (yy - r0) % H < h
            cols = (xx - c0) % W < w
        else:
            rows = (yy >= r0) & (yy < r0 + h)
            cols = (xx >= c0) & (xx < c0 + w)
        return rows & cols
    _t, r, c, rad = s
    dy = np.abs(yy - r)
    dx = np.abs(xx - c)
    if periodic:
        dy = np.minimum(dy, H - dy)
        dx = np.minimum(dx, W - dx)
    return dy * dy + dx * dx <= rad * rad


def build_mask(H, W, spec, wrap):
    """None or a boolean (H, W) array with at least one True pixel."""
    if spec is None:
        return None
    t = spec["t"]
    if t == "shapes":
        periodic = bool(spec.get("periodic", False))
        m = np.zeros((H, W), dtype=bool)
        for s in spec["add"]:
            m |= _shape_mask(H, W, s, periodic)
        for s in spec["sub"]:
            m &= ~_shape_mask(H, W, s, periodic)
    elif t == "noise":
        rng = np.random.default_rng(spec["seed"])
        z = rng.standard_normal((H, W))
        z = ndimage.gaussian_filter(z, spec["smooth"], mode="wrap" if wrap else "nearest")
        m = z >= np.quantile(z, 1.0 - spec["fill"])
    elif t == "band":
        # valid = everything outside a removed band of columns and/or rows that does not touch the
        # border: the two (or four) remaining strips meet only across the periodic seam
        m = np.ones((H, W), dtype=bool)
        if spec.get("cols"):
            c0, w = spec["cols"]
            m[:, c0 : c0 + w] = False
        if spec.get("rows"):
            r0, h = spec["rows"]
            m[r0 : r0 + h, :] = False
        for r, c in spec.get("holes", []):
            m[r % H, c % W] = False
    elif t == "corner":
        # corner-centred (FFT layout) disc / square of "radius" rad around index (0, 0), optionally
        # intersected with a copy shifted by `shift` (the overlap lune of two bright-field discs)
        r = spec["rad"]

        def S(r0, c0):
            if spec["shape"] == "disc":
                return _shape_mask(H, W, ["disc", r0 % H, c0 % W, r], True)
            return _shape_mask(H, W, ["rect", (r0 - r) % H, (c0 - r) % W, min(H, 2 * r + 1), min(W, 2 * r + 1)], True)

        m = S(0, 0)
        if spec.get("shift"):
            m = m & S(spec["shift"][0], spec["shift"][1])
    elif t == "bits":
        m = np.zeros((H, W), dtype=bool)
        for i, row in enumerate(spec["rows"][:H]):
            for j in range(W):
                m[i, j] = bool((row >> j) & 1)
    else:
        raise ValueError(t)
    if spec.get("invert"):
        m = ~m
    if spec.get("keep") == "largest" and m.any():
        lab, n = components(H, W, m, wrap)
        sizes = np.bincount(lab[lab >= 0], minlength=n)
        m = lab == int(np.argmax(sizes))
    if not m.any():
        m[H // 2, W // 2] = True
    return m


# ------------------------------------------------------------------------------------------------
# smooth fields from recipes
# ------------------------------------------------------------------------------------------------
def _term(H, W, t):
    """One field term.  With t['corner'] the term is laid out corner-centred (FFT layout, as the
    bright-field grids of DirectPtychography are): it is smooth across the periodic seam between
    index -1 and index 0 and has its discontinuity at the Nyquist row/column instead."""
    g = _term_plain(H, W, t)
    return np.fft.ifftshift(g) if t.get("corner") else g


def _term_plain(H, W, t):
    y, x = np.meshgrid(np.arange(H, dtype=np.float64), np.arange(W, dtype=np.float64), indexing="ij")
    k = t["t"]
    if k == "ramp":
        return math.cos(t["angle"]) * x + math.sin(t["angle"]) * y
    if k == "quad":
        dx = x - t["x0"] * (W - 1)
        dy = y - t["y0"] * (H - 1)
        return t["cxx"] * dx * dx + t["cyy"] * dy * dy + t["cxy"] * dx * dy
    if k == "gauss":
        dx = np.abs(x - t["x0"] * (W - 1))
        dy = np.abs(y - t["y0"] * (H - 1))
        if t.get("periodic"):
            dx = np.minimum(dx, W - dx)
            dy = np.minimum(dy, H - dy)
        s = max(t["s"] * max(H, W), 0.3)
        return np.exp(-(dx * dx + dy * dy) / (2 * s * s))
    if k == "cos":
        return np.cos(TWO_PI * (t["m"] * x / W + t["n"] * y / H) + t["ph"])
    if k == "white":
        return np.random.default_rng(t["seed"]).standard_normal((H, W))
    if k == "band":
        rng = np.random.default_rng(t["seed"])
        km = t["kmax"]
        f = np.zeros((H, W))
        for ky in range(-km, km + 1):
            for kx in range(0, km + 1):
                if kx == 0 and ky <= 0:
                    continue
                a = rng.standard_normal() / (kx * kx + ky * ky) ** (0.5 * t["decay"])
                ph = rng.uniform(0, TWO_PI)
                f += a * np.cos(TWO_PI * (kx * x / W + ky * y / H) + ph)
        return f
    raise ValueError(k)


def max_edge_diff(f, a, b):
    if a.size == 0:
        return 0.0
    ff = f.ravel()
    return float(np.max(np.abs(ff[a] - ff[b])))


MAX_ABS_PHASE = 200.0  # rad; a connected 28x28 region with steps <= 0.95*pi spans at most 54*0.95*pi = 161


def build_field(H, W, spec, a, b, inm):
    """float64 (H, W) field = weighted sum of the terms, whose largest |difference| over the pixel
    pairs (a, b) is at most spec['frac']*pi (Itoh's condition over exactly the pairs that matter),
    plus a global offset.  `inm` (H, W) bool: the pixels the property speaks about.

    Magnitudes are kept physical by construction: a term that is numerically flat over the pairs that
    matter (largest step < 1e-6 of its own peak-to-peak) is dropped rather than blown up; the field is
    centred on its in-mask mean and, if it still exceeds MAX_ABS_PHASE on the mask (regions that are
    not connected to each other carry no step constraint between them), scaled *down* - which only
    makes the steps smaller; outside the mask, where nothing is claimed, values are clipped."""
    f = np.zeros((H, W))
    for t in spec["terms"]:
        g = _term(H, W, t)
        dg = max_edge_diff(g, a, b)
        ptp = float(np.ptp(g))
        if math.isfinite(dg) and math.isfinite(ptp) and dg > 1e-6 * ptp and dg > 0:
            # every term enters with unit largest step, times its weight
            f = f + g * (t["w"] / dg)
    d = max_edge_diff(f, a, b)
    target = spec["frac"] * math.pi
    if d > 0 and math.isfinite(d) and np.all(np.isfinite(f)):
        f = f * (target / d)
        f = f - float(np.mean(f[inm]))
        m = float(np.max(np.abs(f[inm])))
        if m > MAX_ABS_PHASE:
            f = f * (MAX_ABS_PHASE / m)
        # guard against a rounding overshoot of the rescale (keeps the bound exact)
        d2 = max_edge_diff(f, a, b)
        if d2 > target:
            f = f * (target / d2) * (1 - 1e-12)
        # optional "gentle field": total in-mask range limited (scaling down keeps the steps legal)
        mr = spec.get("max_range")
        if mr is not None:
            rng_in = float(np.ptp(f[inm]))
            if rng_in > mr:
                f = f * (mr / rng_in)
        f = np.where(inm, f, np.clip(f, -MAX_ABS_PHASE, MAX_ABS_PHASE))
    else:
        f = np.zeros((H, W))
    pin = spec.get("pin")
    if pin is not None:
        # the piston is chosen so that the wrap level (2n+1)*pi lies between two chosen neighbouring
        # pixels a and b, a fraction t of the way from a to b: a wrap contour passes exactly there
        (ra, ca), (rb, cb) = pin["a"], pin["b"]
        fa, fb = float(f[ra % H, ca % W]), float(f[rb % H, cb % W])
        level = (2 * pin["n"] + 1) * math.pi
        off = level - ((1 - pin["t"]) * fa + pin["t"] * fb)
        # only the piston modulo 2*pi matters for where the contours run: keep it in [-pi, pi]
        return f + (off - TWO_PI * round(off / TWO_PI))
    return f + spec["offset"]


def wrap(f):
    """wrapped phase in (-pi, pi]"""
    return np.angle(np.exp(1j * f))

"""Harness-side oracles for C09 (pure Python / numpy, nothing imported from quantem).

The oracles are the *definitions* the property quotes: a partition is a pair of index lists whose
concatenation is a permutation of range(n); an epoch is a sequence of batches whose concatenation is a
permutation of the training list; a contiguous split is a chain of half-open ranges."""

from __future__ import annotations

import math

# ------------------------------------------------------------------------------------------------
# bounded-exhaustive spaces (part 1)
# ------------------------------------------------------------------------------------------------
EXH_N_MAX = 40  # SimpleBatcher: n = 1..40
EXH_SEEDS = (0, 1)
EXH_SPLIT_N_MAX = 64  # subdivide_batches / generate_batches: num_items = 1..64
EXH_SPLIT_STARTS = (0, 7)


def val_ratio_grid(n):
    """0, every k/n (k = 1..n-1: the ratios at which round(n*ratio) changes), and 0.05..0.95 in steps
    of 0.05; all in [0, 1), duplicates removed, ascending."""
    vals = {0.0}
    for k in range(1, n):
        vals.add(k / n)
    for j in range(1, 20):
        vals.add(round(0.05 * j, 2))
    return sorted(v for v in vals if 0.0 <= v < 1.0)


def batcher_space():
    """Every configuration of the bounded-exhaustive SimpleBatcher space, in a fixed order."""
    for n in range(1, EXH_N_MAX + 1):
        ratios = val_ratio_grid(n)
        for b in list(range(1, n + 3)) + [None]:
            for ratio in ratios:
                for mode in ("grid", "random"):
                    for shuffle in (False, True):
                        for seed in EXH_SEEDS:
                            # rng passed as a Generator, the way Ptychography.reconstruct passes self.rng
                            yield {
                                "kind": "batcher",
                                "n": n,
                                "b": b,
                                "val_ratio": ratio,
                                "val_mode": mode,
                                "shuffle": shuffle,
                                "seed": seed,
                                "rng": "gen",
                            }


def batcher_space_size():
    return sum((n + 3) * len(val_ratio_grid(n)) for n in range(1, EXH_N_MAX + 1)) * 2 * 2 * len(EXH_SEEDS)


def split_space():
    """Every configuration of the bounded-exhaustive subdivide_batches/generate_batches space."""
    for n in range(1, EXH_SPLIT_N_MAX + 1):
        for start in EXH_SPLIT_STARTS:
            for nb in range(1, n + 1):
                yield {"kind": "split", "n": n, "num_batches": nb, "max_batch": None, "start": start}
            for mb in range(1, n + 3):
                yield {"kind": "split", "n": n, "num_batches": None, "max_batch": mb, "start": start}


def split_space_size():
    return sum(len(EXH_SPLIT_STARTS) * (n + n + 2) for n in range(1, EXH_SPLIT_N_MAX + 1))


# ------------------------------------------------------------------------------------------------
# definitions
# ------------------------------------------------------------------------------------------------
def divisors(n):
    return [d for d in range(1, n + 1) if n % d == 0]


def partition_error(train, val, n):
    """None when train and val (lists of ints) are disjoint and together are exactly range(n), each
    index once; else a description."""
    both = sorted(train + val)
    if both == list(range(n)):
        return None
    st, sv = set(train), set(val)
    if len(st) != len(train):
        return "training set contains a repeated index"
    if len(sv) != len(val):
        return "validation set contains a repeated index"
    if st & sv:
        return "training and validation sets share indices %s" % sorted(st & sv)[:5]
    missing = sorted(set(range(n)) - st - sv)
    if missing:
        return "indices %s are in neither the training nor the validation set" % missing[:5]
    extra = sorted((st | sv) - set(range(n)))
    return "indices %s are outside range(%d)" % (extra[:5], n)


def epoch_error(batches, expected_sorted, bs):
    """None when `batches` (list of lists of ints) visits every element of `expected_sorted` exactly
    once, every batch has <= bs items and only the last is shorter than bs; else a description."""
    nb = len(batches)
    for i, bt in enumerate(batches):
        if len(bt) > bs:
            return "batch %d has %d items, more than the batch size %d" % (i, len(bt), bs)
        if len(bt) < bs and i != nb - 1:
            return "batch %d of %d has %d < %d items but is not the last batch" % (i, nb, len(bt), bs)
    flat = [i for bt in batches for i in bt]
    if sorted(flat) == expected_sorted:
        return None
    seen = set()
    for i in flat:
        if i in seen:
            return "index %d is visited more than once in one epoch" % i
        seen.add(i)
    missing = sorted(set(expected_sorted) - seen)
    if missing:
        return "indices %s are never visited in the epoch" % missing[:5]
    return "indices %s are visited but do not belong to the set" % sorted(seen - set(expected_sorted))[:5]


def sizes_error(sizes, n, num_batches, max_batch):
    """Batch-size list of a balanced split of n items."""
    sizes = [int(s) for s in sizes]
    if sum(sizes) != n:
        return "batch sizes sum to %d, not %d" % (sum(sizes), n)
    if not sizes:
        return "no batches for %d items" % n
    if min(sizes) < 0:
        return "negative batch size"
    if max(sizes) - min(sizes) > 1:
        return "batch sizes differ by more than one: min %d max %d" % (min(sizes), max(sizes))
    if num_batches is not None and len(sizes) != num_batches:
        return "%d batches returned, %d requested" % (len(sizes), num_batches)
    if max_batch is not None and max(sizes) > max_batch:
        return "a batch of %d items exceeds max_batch=%d" % (max(sizes), max_batch)
    return None


def ranges_error(ranges, n, start, num_batches, max_batch):
    """(start, end) pairs: contiguous, disjoint, covering [start, start+n), balanced."""
    if not ranges:
        return "no ranges for %d items" % n
    if ranges[0][0] != start:
        return "first range starts at %r, not at start_index=%d" % (ranges[0][0], start)
    for i in range(len(ranges) - 1):
        if ranges[i][1] != ranges[i + 1][0]:
            return "range %d ends at %r but range %d starts at %r (gap or overlap)" % (i, ranges[i][1], i + 1, ranges[i + 1][0])
    if ranges[-1][1] != start + n:
        return "last range ends at %r, not at %d" % (ranges[-1][1], start + n)
    return sizes_error([int(e) - int(s) for s, e in ranges], n, num_batches, max_batch)


def hexes(values):
    """Bit-exact, NaN-safe representation of a float sequence."""
    return [float(v).hex() for v in values]


def ceil_div(a, b):
    return int(math.ceil(a / b)) if b else 0

"""Float64 reference model for C18 (centre-of-mass origin estimation).  Pure numpy, no quantem.

Conventions (the ones the property states): a diffraction pattern is indexed [row, column]; the origin
of a pattern is the pair (row coordinate, column coordinate), row first.
"""

from __future__ import annotations

import numpy as np


def com(arr, mask=None):
    """Intensity-weighted mean detector coordinate of every pattern of `arr` (..., H, W).
    Returns (com_row, com_col), each of shape arr.shape[:-2], in float64.  With `mask` (H, W) the
    weights are arr * mask."""
    A = np.asarray(arr)
    if mask is not None:
        A = A.astype(np.float64) * np.asarray(mask, dtype=np.float64)
    H, W = A.shape[-2:]
    rows = np.arange(H, dtype=np.float64)
    cols = np.arange(W, dtype=np.float64)
    # float64 accumulation of the stored values (dtype=float64 converts each element exactly before it
    # is added; no float64 copy of a large dataset is made)
    # marginals first: sum over the *other* axis, then weight (keeps rows/cols impossible to confuse)
    row_marginal = A.sum(axis=-1, dtype=np.float64)  # (..., H)
    col_marginal = A.sum(axis=-2, dtype=np.float64)  # (..., W)
    total = row_marginal.sum(axis=-1)
    com_r = (row_marginal * rows).sum(axis=-1) / total
    com_c = (col_marginal * cols).sum(axis=-1) / total
    return com_r, com_c


def plane(shape, coef):
    """z[i, j] = coef[0] + coef[1] * i + coef[2] * j on a scan grid of `shape` (float64)."""
    a, b = shape
    i, j = np.meshgrid(np.arange(a, dtype=np.float64), np.arange(b, dtype=np.float64), indexing="ij")
    return float(coef[0]) + float(coef[1]) * i + float(coef[2]) * j


def roll_to_corner(patterns, origins):
    """patterns (N, H, W), integer origins (N, 2) -> pattern k circularly rolled so that pixel
    origins[k] lands on [0, 0]."""
    out = np.empty_like(patterns)
    for k in range(patterns.shape[0]):
        out[k] = np.roll(patterns[k], (-int(origins[k][0]), -int(origins[k][1])), axis=(0, 1))
    return out

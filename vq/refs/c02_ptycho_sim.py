"""Independent reference simulator for the mixed-state multislice ptychographic forward model.

numpy float64/complex128 only; nothing is imported from quantem.  Written from the physics:

  for every scan position p (fractional object pixels) and every incoherent probe mode m
      psi      = probe_m translated by (p - round(p))               (Fourier shift theorem; the probe
                                                                     array has its origin at [0, 0])
      window   = the R x C object pixels round(p) + {-R/2 .. R/2-1}  (periodic object; offsets in DFT
                                                                     order so that offset 0 meets the
                                                                     probe origin)
      for every slice s:   psi <- psi * t_s[window];   between slices   psi <- F^-1[ F[psi] * P_s ]
                           t_s = slice transmission (exp(i V_s) for a potential V_s)
                           P_s(k) = exp(-i pi lambda dz_s |k|^2)     (Fresnel, paraxial)
      I_p     += | unitary DFT of psi |^2                            (incoherent sum over modes)
  the pattern is laid out like a detector frame: zero frequency at pixel (R//2, C//2).

The same module evaluates the four data-fidelity losses from their definition, so that the library
value can be compared at points where the loss is not zero."""

from __future__ import annotations

import math

import numpy as np

SQRT_EPS = 1e-9  # the regulariser quantem documents inside sqrt(I + 1e-9) for amplitude losses


def wavelength_angstrom(energy_ev: float) -> float:
    """Relativistic de Broglie wavelength in Angstrom (CODATA constants)."""
    hc = 12398.419843320026  # eV * Angstrom
    mc2 = 510998.95  # eV
    return hc / math.sqrt(energy_ev * (2.0 * mc2 + energy_ev))


def dft_offsets(n: int) -> np.ndarray:
    """0, 1, ..., ceil(n/2)-1, -floor(n/2), ..., -1 : pixel offsets of an origin-at-[0] array."""
    k = np.arange(n)
    return np.where(k < (n + 1) // 2, k, k - n).astype(np.int64)


def spatial_frequencies(n: int, d: float) -> np.ndarray:
    """Frequencies (1/length) of the n-point DFT with sample spacing d."""
    return dft_offsets(n).astype(np.float64) / (n * d)


def fourier_shift(a: np.ndarray, s0: float, s1: float) -> np.ndarray:
    """a translated by (+s0, +s1) pixels along the last two axes (periodic, band-limited)."""
    n0, n1 = a.shape[-2:]
    k0 = dft_offsets(n0).astype(np.float64) / n0
    k1 = dft_offsets(n1).astype(np.float64) / n1
    ramp = np.exp(-2j * np.pi * (k0[:, None] * s0 + k1[None, :] * s1))
    return np.fft.ifft2(np.fft.fft2(a) * ramp)


def fresnel_propagator(shape, sampling, wavelength: float, dz: float) -> np.ndarray:
    k0 = spatial_frequencies(shape[0], sampling[0])
    k1 = spatial_frequencies(shape[1], sampling[1])
    k2 = k0[:, None] ** 2 + k1[None, :] ** 2
    return np.exp(-1j * np.pi * wavelength * dz * k2)


def transmission(obj: np.ndarray, obj_type: str) -> np.ndarray:
    obj = np.asarray(obj)
    if obj_type == "potential":
        if np.iscomplexobj(obj):
            raise ValueError("potential objects are real")
        return np.exp(1j * obj.astype(np.float64))
    return obj.astype(np.complex128)


TIE_RULES = ("even", "up", "down")


def nearest_pixel(p: float, tie: str = "even") -> int:
    """Nearest integer to p.  Exactly half-way positions have two nearest pixels; which one serves as
    the window origin is a convention (the probe is then shifted by +0.5 or -0.5 accordingly, so its
    physical position is p either way): "even" = to the even neighbour, "up" = k + 1, "down" = k."""
    if tie == "even":
        return int(np.rint(p))
    if tie == "up":
        return int(math.floor(p + 0.5))
    if tie == "down":
        return int(math.ceil(p - 0.5))
    raise ValueError(tie)


def exit_waves(trans, probe, position, sampling, wavelength, thicknesses, tie="even"):
    """(M, R, C) exit waves for one scan position.  trans: (S, Ro, Co) complex transmission."""
    S, Ro, Co = trans.shape
    _M, R, C = probe.shape
    r0 = nearest_pixel(float(position[0]), tie)
    c0 = nearest_pixel(float(position[1]), tie)
    rows = (r0 + dft_offsets(R)) % Ro
    cols = (c0 + dft_offsets(C)) % Co
    psi = fourier_shift(probe, position[0] - r0, position[1] - c0)
    for s in range(S):
        psi = psi * trans[s][np.ix_(rows, cols)][None]
        if s < S - 1:
            P = fresnel_propagator((R, C), sampling, wavelength, float(thicknesses[s]))
            psi = np.fft.ifft2(np.fft.fft2(psi) * P[None])
    return psi


def detect(psi: np.ndarray) -> np.ndarray:
    """Incoherent mode sum of the far-field intensities, zero frequency at pixel (R//2, C//2)."""
    F = np.fft.fft2(psi, norm="ortho")
    inten = np.sum(F.real**2 + F.imag**2, axis=0)
    R, C = inten.shape
    return np.roll(inten, (R // 2, C // 2), axis=(0, 1))


def simulate(obj, obj_type, probe, positions, sampling, energy, thicknesses, tie="even") -> np.ndarray:
    """(J, R, C) float64 diffraction intensities.

    obj         (S, Ro, Co) complex transmission function, or real potential for obj_type "potential"
    probe       (M, R, C) complex, real-space, origin at pixel [0, 0]
    positions   (J, 2) probe positions in object pixels (fractional)
    sampling    (2,) object pixel size in Angstrom
    thicknesses (S-1,) distances between consecutive slices in Angstrom
    tie         window-origin convention for positions exactly half-way between two pixels (TIE_RULES)"""
    trans = transmission(obj, obj_type)
    probe = np.asarray(probe, dtype=np.complex128)
    lam = wavelength_angstrom(float(energy))
    positions = np.asarray(positions, dtype=np.float64)
    out = np.empty((positions.shape[0],) + probe.shape[-2:], dtype=np.float64)
    for j in range(positions.shape[0]):
        out[j] = detect(exit_waves(trans, probe, positions[j], sampling, lam, thicknesses, tie))
    return out


def loss(pred, meas, batch, loss_type: str, num_patterns: int, mean_intensity: float) -> float:
    """Data-fidelity loss of a batch, from its definition: sum over the batch and the detector of
    |sqrt(pred + 1e-9) - sqrt(meas)|^p (amplitude) or |pred - meas|^p (intensity), p = 1 | 2, scaled
    to the whole scan (divided by the batch fraction len(batch)/J) and by the mean pattern intensity."""
    batch = np.asarray(batch)
    p = np.asarray(pred, dtype=np.float64)[batch]
    m = np.asarray(meas, dtype=np.float64)[batch]
    if "amplitude" in loss_type:
        d = np.sqrt(p + SQRT_EPS) - np.sqrt(m)
    else:
        d = p - m
    e = np.sum(np.abs(d)) if loss_type.startswith("l1") else np.sum(d * d)
    return float(e / (len(batch) / num_patterns) / mean_intensity)

"""Pure-Python reference model of a ragged Vector (C11).  No numpy, no quantem.

A cell is `None` (never assigned) or a list of rows, each row a list of Python floats with exactly
one entry per field.  Everything has value semantics: whatever goes in or comes out is copied.
Index sets follow Python's own `slice.indices` / `range`; several non-integer index expressions
combine as an outer product (one index set per fixed dimension), cells are always enumerated in
row-major order of the fixed dimensions."""

from __future__ import annotations

import copy
import itertools


def index_set(expr, n):
    """Index set addressed by one resolved per-dimension expression along an axis of length n.
    expr: ("i", int) | ("s", (start, stop, step)) | ("l", [ints]) | ("a", [ints])"""
    kind, val = expr
    if kind == "i":
        return [val]
    if kind == "s":
        return list(range(*slice(*val).indices(n)))
    return list(val)


class VectorModel:
    def __init__(self, shape, fields, units, metadata=None):
        self.shape = tuple(shape)
        self.fields = list(fields)
        self.units = list(units)
        self.cells = {idx: None for idx in itertools.product(*[range(n) for n in self.shape])}
        self.metadata = {} if metadata is None else copy.deepcopy(metadata)
        # bookkeeping for the harness only: some cell was given as a non-float64 array (values are still
        # compared BY VALUE; the harness keeps dtype-sensitive in-place arithmetic away from such vectors)
        self.mixed = False

    # ---- basic ----------------------------------------------------------------------------------
    @property
    def ndim(self):
        return len(self.shape)

    @property
    def k(self):
        return len(self.fields)

    def order(self):
        """all cell indices in row-major order"""
        return list(itertools.product(*[range(n) for n in self.shape]))

    def copy(self):
        m = VectorModel(self.shape, self.fields, self.units, self.metadata)
        m.cells = copy.deepcopy(self.cells)
        m.mixed = self.mixed
        return m

    # ---- cells ----------------------------------------------------------------------------------
    def set_cell(self, idx, rows):
        idx = tuple(idx)
        assert idx in self.cells
        assert all(len(r) == self.k for r in rows)
        self.cells[idx] = [[float(x) for x in r] for r in rows]

    def get_cell(self, idx):
        return copy.deepcopy(self.cells[tuple(idx)])

    def addressed(self, exprs):
        """(index sets per dimension, addressed cell indices in row-major order of the sets);
        a short expression tuple is completed with full slices"""
        exprs = list(exprs) + [("s", (None, None, None))] * (self.ndim - len(exprs))
        sets = [index_set(e, n) for e, n in zip(exprs, self.shape)]
        return sets, list(itertools.product(*sets))

    def set_many(self, exprs, rows_list, upto=None):
        _sets, cells = self.addressed(exprs)
        assert len(cells) == len(rows_list)
        for t, (idx, rows) in enumerate(zip(cells, rows_list)):
            if upto is not None and t >= upto:
                break
            self.set_cell(idx, rows)

    def get_many(self, exprs):
        _sets, cells = self.addressed(exprs)
        return [self.get_cell(i) for i in cells]

    def select(self, exprs):
        """the Vector a slicing expression returns: one axis per fixed dimension whose length is the
        size of that dimension's index set (integers keep a length-1 axis)"""
        sets, _cells = self.addressed(exprs)
        out = VectorModel([len(s) for s in sets], self.fields, self.units)
        for oidx in out.order():
            src = tuple(s[i] for s, i in zip(sets, oidx))
            out.cells[oidx] = self.get_cell(src)
        out.mixed = self.mixed
        return out

    # ---- fields ---------------------------------------------------------------------------------
    def field_flat(self, name):
        c = self.fields.index(name)
        out = []
        for idx in self.order():
            cell = self.cells[idx]
            if cell is not None:
                out.extend(r[c] for r in cell)
        return out

    def set_field_flat(self, name, values):
        c = self.fields.index(name)
        assert len(values) == len(self.field_flat(name))
        t = 0
        for idx in self.order():
            cell = self.cells[idx]
            if cell is not None:
                for r in cell:
                    r[c] = float(values[t])
                    t += 1

    def apply_field(self, name, fn):
        self.set_field_flat(name, [fn(x) for x in self.field_flat(name)])

    def flatten(self):
        out = []
        for idx in self.order():
            cell = self.cells[idx]
            if cell is not None:
                out.extend(list(r) for r in cell)
        return out

    def total_rows(self):
        return sum(len(c) for c in self.cells.values() if c is not None)

    def add_fields(self, names):
        assert not (set(names) & set(self.fields)) and len(set(names)) == len(names)
        self.fields += list(names)
        self.units += ["none"] * len(names)
        for cell in self.cells.values():
            if cell is not None:
                for r in cell:
                    r.extend([0.0] * len(names))

    def remove_fields(self, names):
        drop = [i for i, f in enumerate(self.fields) if f in names]
        keep = [i for i in range(self.k) if i not in drop]
        self.fields = [self.fields[i] for i in keep]
        self.units = [self.units[i] for i in keep]
        for idx, cell in self.cells.items():
            if cell is not None:
                self.cells[idx] = [[r[i] for i in keep] for r in cell]

"""Harness-side reference pieces for C16 (numpy float64 only, nothing imported from quantem)."""

from __future__ import annotations

import math

import numpy as np


def wavelength_angstrom(energy_ev: float) -> float:
    """Relativistic electron wavelength; used only to scale the float32 phase-rounding tolerance."""
    hc = 12398.419843320026  # eV * Angstrom
    mc2 = 510998.95  # eV
    return hc / math.sqrt(energy_ev * (2.0 * mc2 + energy_ev))


def window_indices(r0, c0, roi, obj_shape):
    """Flat indices of wrapped roi-sized windows whose corner-centred origin sits at (r0, c0)."""
    R, C = roi
    Ro, Co = obj_shape
    dr = np.fft.fftfreq(R, 1.0 / R).round().astype(np.int64)
    dc = np.fft.fftfreq(C, 1.0 / C).round().astype(np.int64)
    rows = (np.asarray(r0)[:, None, None] + dr[None, :, None]) % Ro
    cols = (np.asarray(c0)[:, None, None] + dc[None, None, :]) % Co
    return rows * Co + cols


def centred_magnitudes(y):
    """sqrt of the incoherent (over axis 0) sum of |ortho FFT|^2, DC moved to the detector centre the
    way DetectorPixelated.forward lays out its output (np.fft.fftshift of the corner-centred array)."""
    F = np.fft.fft2(np.asarray(y, dtype=np.complex128), norm="ortho")
    return np.fft.fftshift(np.sqrt(np.sum(np.abs(F) ** 2, axis=0)), axes=(-2, -1))

"""Reference pieces for C04 (direct ptychography).  numpy float64 only; nothing here imports quantem.

Conventions fixed here (and why they may be trusted):

* detector pixels are given as *signed* integer indices (i, j) of a corner-centred (Q, R) array: array position
  (i mod Q, j mod R); pixel (0, 0) is the unscattered beam.  The order of the virtual bright-field stack is the
  row-major order of the True pixels of the corner-centred mask (what `stack[..., mask]` / `torch.nonzero` give).
* alias table of aberration names: 'defocus' = -C10, the others 1:1 (pinned independently by property C12).
* kernel families: the names the property lists, their short forms, and the two literature synonyms the
  reconstruct docstring table gives (acBF = single-sideband family, tcBF = parallax).
* translation sign of the analytic parallax oracle: image k is moved by +s_k, i.e. out(x) = v_k(x - s_k) with
  s_k = (lambda / 2 pi) grad_alpha chi(alpha_k).  The property text fixes the magnitude and the axis but not the
  sign; it was calibrated once against the pinned tree and is frozen here (TRANSLATION_SIGN).
"""

from __future__ import annotations

import math

import numpy as np

TRANSLATION_SIGN = +1.0

ALIASES = {
    "defocus": ("C10", -1.0),
    "astigmatism": ("C12", 1.0),
    "astigmatism_angle": ("phi12", 1.0),
    "coma": ("C21", 1.0),
    "coma_angle": ("phi21", 1.0),
    "Cs": ("C30", 1.0),
}
INV_ALIASES = {v[0]: k for k, v in ALIASES.items()}

KERNELS = {
    "ssb": ["ssb", "single-sideband", "acbf", "aberration-corrected-bright-field", "SSB", "Single-Sideband"],
    "obf": ["obf", "optimum-bright-field", "OBF"],
    "mf": ["mf", "matched-filter", "MF"],
    "prlx": ["prlx", "parallax", "tcbf", "tilt-corrected-bright-field", "Parallax", "tcBF"],
    "icom": ["icom", "center-of-mass", "iCOM"],
}
FAMILY = {name: fam for fam, names in KERNELS.items() for name in names}
SINGLE_PASS = ("ssb", "prlx", "icom")


def canonical(items):
    """[(key, value)] with alias keys -> {canonical symbol: float}."""
    out = {}
    for k, v in items:
        sym, sign = ALIASES.get(k, (k, 1.0))
        out[sym] = sign * float(v)
    return out


def wavelength(energy_ev):
    """Relativistic electron wavelength in Angstrom (CODATA h c = 12398.4198 eV A, m c^2 = 510998.95 eV)."""
    e = float(energy_ev)
    return 12398.419843320026 / math.sqrt(e * (e + 2.0 * 510998.95))


def stack_order(px, gpts):
    """Sort signed pixel indices into the stack order (row-major over the corner-centred array)."""
    q, r = gpts
    return sorted(([int(i), int(j)] for i, j in px), key=lambda p: (p[0] % q, p[1] % r))


def mask_array(px, gpts):
    m = np.zeros(tuple(gpts), dtype=bool)
    for i, j in px:
        m[i % gpts[0], j % gpts[1]] = True
    return m


def candidates(gpts, pad):
    """Signed indices usable for a mask: no Nyquist row/column (its sign is a convention), and at least `pad`
    pixels away from it so that the bounding-box crop with that padding stays inside the array."""
    q, r = gpts
    hi = (q - 1) // 2 - pad
    hj = (r - 1) // 2 - pad
    return [(i, j) for i in range(-hi, hi + 1) for j in range(-hj, hj + 1)]


def is_symmetric(px):
    s = {(int(i), int(j)) for i, j in px}
    return all((-i, -j) in s for i, j in s)


def make_stack(seed, eps, n, scan):
    """(n, sx, sy) float32 stack 1 + eps * standard normal noise."""
    rng = np.random.default_rng(int(seed))
    return (1.0 + float(eps) * rng.standard_normal((int(n), int(scan[0]), int(scan[1])))).astype(np.float32)


def fourier_translate(img, shift, sampling):
    """Translate a periodic image by `shift` (Angstrom, per axis): out(x) = img(x - shift), by the DFT shift
    theorem in float64.  The real part makes the result independent of the sign given to the Nyquist frequency."""
    img = np.asarray(img, dtype=np.float64)
    nx, ny = img.shape
    qx = np.fft.fftfreq(nx, d=float(sampling[0]))[:, None]
    qy = np.fft.fftfreq(ny, d=float(sampling[1]))[None, :]
    ph = np.exp(-2j * np.pi * (qx * float(shift[0]) + qy * float(shift[1])))
    return np.real(np.fft.ifft2(np.fft.fft2(img) * ph))


def shifted_sum(stack, shifts, sampling, weight):
    """sum_k T_{s_k}(v_k - mean v_k) / weight in float64; shifts None -> no translation."""
    stack = np.asarray(stack, dtype=np.float64)
    out = np.zeros(stack.shape[1:], dtype=np.float64)
    for k in range(stack.shape[0]):
        v = stack[k] - stack[k].mean()
        if shifts is not None and (shifts[k][0] != 0.0 or shifts[k][1] != 0.0):
            v = fourier_translate(v, (TRANSLATION_SIGN * shifts[k][0], TRANSLATION_SIGN * shifts[k][1]), sampling)
        out += v
    return out / float(weight)


def non_divisor(n):
    """A batch size in 2..n-1 that does not divide n (unequal batches), or None."""
    for b in range(n - 1, 1, -1):
        if n % b:
            return b
    return None

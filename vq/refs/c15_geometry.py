"""Reference geometry for C15 (drift-correction resampling), written from the property statement,
not from quantem: float64 closed forms only.  Nothing here imports quantem.

Convention (docstring of DriftCorrection: "scan direction angle in degrees, measured relative to
vertical"; arrays are indexed (row, col)): at angle 0 the fast scan axis is +col and the slow axis
is +row, so the image is copied unrotated; a positive angle t rotates both axes by the same proper
rotation,
    fast = (-sin t, cos t)      slow = (cos t, sin t)       (row, col components)
det[slow; fast] = +1 for every t: no reflection, no scaling."""

from __future__ import annotations

import numpy as np


def scan_axes(theta_deg):
    t = np.deg2rad(np.float64(theta_deg))
    fast = np.array([-np.sin(t), np.cos(t)], dtype=np.float64)
    slow = np.array([np.cos(t), np.sin(t)], dtype=np.float64)
    return fast, slow


def closed_form(R, C, H, W, theta_deg):
    """Canvas (row, col) coordinates of every image pixel (r, c): canvas centre ((H-1)/2, (W-1)/2)
    plus the rotation of the pixel's offset from the image centre ((R-1)/2, (C-1)/2)."""
    fast, slow = scan_axes(theta_deg)
    dr = np.arange(R, dtype=np.float64)[:, None] - (R - 1) / 2.0
    dc = np.arange(C, dtype=np.float64)[None, :] - (C - 1) / 2.0
    X = (H - 1) / 2.0 + dc * fast[0] + dr * slow[0]
    Y = (W - 1) / 2.0 + dc * fast[1] + dr * slow[1]
    return X, Y


def centroid(weights):
    """First moment of a non-negative map, float64."""
    w = np.asarray(weights, dtype=np.float64)
    s = w.sum()
    i = np.arange(w.shape[0], dtype=np.float64)
    j = np.arange(w.shape[1], dtype=np.float64)
    return float((w.sum(axis=1) * i).sum() / s), float((w.sum(axis=0) * j).sum() / s)


def xcorr_noise_px(image):
    """Rounding-noise scale (px) of the sub-pixel peak of the auto-correlation of `image` when that
    correlation is evaluated in single precision: a parabola through lags -1, 0, +1 has its vertex at
    (v+ - v-) / (2 * (2 v0 - v+ - v-)); v+ - v- is zero in exact arithmetic and ~ eps32 * v0 in
    complex64, so the vertex is uncertain by ~ eps32 * v0 / curvature.  Computed here in float64."""
    w = np.asarray(image, dtype=np.float64)
    F = np.fft.fft2(w)
    ac = np.real(np.fft.ifft2(F * np.conj(F)))
    kx = 2 * ac[0, 0] - ac[1, 0] - ac[-1, 0]
    ky = 2 * ac[0, 0] - ac[0, 1] - ac[0, -1]
    kmin = min(kx, ky)
    if not kmin > 0:
        return float("inf")
    return float(np.finfo(np.float32).eps * ac[0, 0] / kmin)


def content(R, C, seed, contrast):
    """Band-limited positive image: unit mean, smooth noise scaled to max |.| == contrast < 1."""
    from scipy.ndimage import gaussian_filter

    rng = np.random.default_rng(int(seed))
    a = gaussian_filter(rng.standard_normal((R, C)), 1.0, mode="wrap")
    a = a / np.max(np.abs(a))
    return 1.0 + float(contrast) * a
